"""C05 - record fields always hold values of their declared type.

Contracts on the real flow/record/base.py and fieldtypes:

  Record.__setattr__(k, v)   normal exit:      slot k is None iff v is None, otherwise isinstance(slot, field type of k) (list fields: every element)
                             exceptional exit: the record is unchanged
  <generated>.__init__       every argument goes through __setattr__; unset fields get None / the type's empty default;
                             _generated is an aware timestamp, _version == RECORD_VERSION
  Record._replace(**kw)      new record with slot s == kw.get(s, old s); unknown names raise; the original is unchanged
  uint16 / uint32 / port     accept exactly 0 <= v <= 0xFFFF / 0xFFFFFFFF;  boolean accepts exactly 0 <= v <= 1      (symbolic integers)
  digest.md5/sha1/sha256     accept exactly hex text of 32 / 40 / 64 digits and leave the digest unchanged when they raise   (symbolic strings)
  typedlist                  every element converted to the element type, also when the input is a typed list of another element type
  every accepted value       the record can be packed by RecordPacker (msgpack model)
"""
import importlib.util
import os
import pathlib

import datetime as _dt

import z3

from pyvc.models.mp import MPBytes

from .common import *  # noqa

_spec = importlib.util.spec_from_file_location("c05_values", os.path.join(os.path.dirname(os.path.dirname(os.path.abspath(__file__))), "replay", "c05_values.py"))
V = importlib.util.module_from_spec(_spec)
_spec.loader.exec_module(V)


def pyvalue(src):
    return eval(src, dict(V.NS, PurePosixPath=pathlib.PurePosixPath, PureWindowsPath=pathlib.PureWindowsPath))


def build(tier="quick", seed=0):
    it, L = engine()
    base = L.import_module("flow.record.base")
    ft = L.import_module("flow.record.fieldtypes")
    pk = L.import_module("flow.record.packer")
    pack = new_pack("C05", "Record fields always hold values of their declared type")
    RD = base.g["RecordDescriptor"]
    FU = ("flow.record.base:Record.__setattr__", "flow.record.base:_generate_record_class", "flow.record.base:Record._replace", "flow.record.base:fieldtype", "flow.record.fieldtypes:typedlist.__init__", "flow.record.fieldtypes:typedlist._convert",
          "flow.record.fieldtypes:uint16.__init__", "flow.record.fieldtypes:uint32.__init__", "flow.record.fieldtypes:boolean.__init__", "flow.record.fieldtypes:bytes.__init__", "flow.record.fieldtypes:string.__new__",
          "flow.record.fieldtypes:datetime.__new__", "flow.record.fieldtypes:digest.__init__", "flow.record.fieldtypes:digest.md5", "flow.record.fieldtypes:digest.sha1", "flow.record.fieldtypes:digest.sha256",
          "flow.record.fieldtypes.net.ip:ipaddress.__init__", "flow.record.fieldtypes.net.ip:ipnetwork.__init__", "flow.record.packer:RecordPacker.pack_obj")
    x = z3.Int("x")

    def snapshot(rec):
        out = []
        for k, v in sorted(rec.attrs.items()):
            if isinstance(v, PObj) and not v.has_base:
                out.append((k, id(v), tuple(sorted((a, id(b) if isinstance(b, (PObj, list)) else repr(b)) for a, b in v.attrs.items()))))
            elif isinstance(v, PObj) and isinstance(v.base, list):
                out.append((k, id(v), tuple(id(e) for e in v.base)))
            else:
                out.append((k, id(v)))
        return out

    def ftype_of(D, name):
        return D.attrs["recordType"].d["_field_types"][name] if "recordType" in D.attrs else None

    def well_typed(rec, fname, typename):
        """z3-free check on the heap: slot holds None or an instance of the declared type (elements too); returns a complaint or None."""
        v = rec.attrs.get(fname)
        if v is None:
            return None
        t = it.call(base.g["fieldtype"], [typename], {})
        from pyvc.models.builtins_ import m_isinstance

        if typename == "record":
            return None
        if typename == "dynamic":
            return None if m_isinstance(it, v, base.g["FieldType"]) is True else f"dynamic field holds {it.type_name(v)}"
        if m_isinstance(it, v, t) is not True:
            return f"{fname} holds {it.type_name(v)}, not {typename}"
        if typename.endswith("[]"):
            et = it.call(base.g["fieldtype"], [typename[:-2]], {})
            for e in v.base:
                if m_isinstance(it, e, et) is not True:
                    return f"element {it.type_name(e)} of {fname} is not a {typename[:-2]}"
        if typename == "datetime" and getattr(v.base, "tzinfo", 1) is None:
            return "naive datetime stored"
        if typename.startswith("digest"):
            for d in (v.base if typename.endswith("[]") else [v]):
                for alg, size in (("md5", 16), ("sha1", 20), ("sha256", 32)):
                    b = d.attrs.get(f"_digest__{alg}_bin")
                    hx = d.attrs.get(f"_digest__{alg}")
                    if b is not None and (len(it.unbase(b)) != size or it.unbase(hx) is None or len(it.unbase(hx)) != 2 * size):
                        return f"digest.{alg} holds {len(it.unbase(b))} bytes (a {alg} has {size})"
        return None

    def packable(rec):
        packer = it.call(pk.g["RecordPacker"], [], {})
        try:
            r = it.call(it.getattr_(packer, "pack"), [rec], {})
            return None if isinstance(r, MPBytes) else f"pack returned {r!r}"
        except PyRaise as e:
            return f"pack raised {e.cls_name}: {e}"

    # ---- A. range-checked integer types, symbolic value: accepted <=> in range; rejected assignment leaves the record unchanged
    for typename, hi in (("uint16", 0xFFFF), ("uint32", 0xFFFFFFFF), ("net.tcp.Port", 0xFFFF), ("net.udp.Port", 0xFFFF), ("boolean", 1), ("uint16[]", 0xFFFF), ("boolean[]", 1)):
        name = f"C05.range[{typename}]"

        def th(typename=typename):
            D = it.call(RD, ["c05/rec", [(typename, "x"), ("varint", "n")]], {})
            rec = it.call(D, [], {"n": 1})
            before = snapshot(rec)
            try:
                it.setattr_(rec, "x", [1, SInt(x)] if typename.endswith("[]") else SInt(x))
                return "accepted", well_typed(rec, "x", typename), packable(rec), rec
            except PyRaise as e:
                return "rejected", e.cls_name, snapshot(rec) == before, rec

        def judge(p, hi=hi, typename=typename):
            r = p.value
            if r[0] == "accepted":
                if r[1] or r[2]:
                    return False, f"accepted value is not well typed / packable: {r[1] or r[2]}"
                v = r[3].attrs["x"]
                stored = it.zint(v.base[1] if typename.endswith("[]") else v)
                return z3.And(x >= 0, x <= hi, stored == x), f"{typename} accepted a value outside 0..{hi} (or stored a different value)"
            return z3.And(z3.Or(x < 0, x > hi), z3.BoolVal(bool(r[2]))), f"{typename} rejected a representable value or the rejected assignment changed the record (unchanged: {r[2]})"

        pack.add(Obligation(name, lambda tier, name=name, th=th, judge=judge: prove_paths(name, th, judge, lambda m, p: {"ftype": typename, "x": model_value(m, x) if m is not None else 0}),
                            replay=lambda w, typename=typename: {"call": "c05_range", "args": {"ftype": typename.replace("[]", ""), "x": w.get("x") or 0}}, functions=FU))

    # ---- A2. the value offered is already a field value of ANOTHER integer type (taken from another record): the target's range still decides
    RANGES = {"uint16": 0xFFFF, "uint32": 0xFFFFFFFF, "net.tcp.Port": 0xFFFF, "net.udp.Port": 0xFFFF, "boolean": 1, "varint": None, "filesize": None}
    for src_t, dst_t in (("uint32", "uint16"), ("uint32", "net.tcp.Port"), ("varint", "uint16"), ("varint", "uint32"), ("uint16", "boolean"), ("net.tcp.Port", "boolean"), ("uint32", "uint16[]"), ("uint16", "uint32")):
        name = f"C05.range[{dst_t} <- a {src_t} field value]"

        def th(src_t=src_t, dst_t=dst_t):
            S = it.call(RD, ["c05/src", [(src_t, "v")]], {})
            D = it.call(RD, ["c05/rec", [(dst_t, "x"), ("varint", "n")]], {})
            if RANGES[src_t] is not None:
                it.assume(z3.And(x >= 0, x <= RANGES[src_t]))
            src = it.call(S, [], {"v": SInt(x)}).attrs["v"]  # a value object of the source type
            rec = it.call(D, [], {"n": 1})
            before = snapshot(rec)
            try:
                it.setattr_(rec, "x", [src] if dst_t.endswith("[]") else src)
                return "accepted", well_typed(rec, "x", dst_t), packable(rec), rec
            except PyRaise as e:
                return "rejected", e.cls_name, snapshot(rec) == before, rec

        def judge(p, dst_t=dst_t):
            hi = RANGES[dst_t.replace("[]", "")]
            r = p.value
            if r[0] == "accepted":
                if r[1] or r[2]:
                    return False, f"accepted value is not well typed / packable: {r[1] or r[2]}"
                v = r[3].attrs["x"]
                stored = it.zint(v.base[0] if dst_t.endswith("[]") else v)
                return z3.And(x >= 0, x <= hi, stored == x), f"{dst_t} accepted a value outside 0..{hi} (or stored a different value)"
            return z3.And(z3.Or(x < 0, x > hi), z3.BoolVal(bool(r[2]))), f"{dst_t} rejected a representable value or the rejected assignment changed the record (unchanged: {r[2]})"

        pack.add(Obligation(name, lambda tier, name=name, th=th, judge=judge: prove_paths(name, th, judge, lambda m, p: {"x": model_value(m, x) if m is not None else 0}),
                            replay=lambda w, src_t=src_t, dst_t=dst_t: {"call": "c05_cross_value", "args": {"src_type": src_t, "dst_type": dst_t, "x": w.get("x") or 0}}, functions=FU))

    # ---- A2b. assignment through a grouped record is an assignment to the member that owns the field: same conversion, same range check
    for typename, hi in (("uint16", 0xFFFF), ("boolean", 1)):
        name = f"C05.range[{typename}, assigned through a grouped record]"

        def th(typename=typename):
            A = it.call(RD, ["c05/ma", [(typename, "x"), ("string", "s")]], {})
            B = it.call(RD, ["c05/mb", [("varint", "k")]], {})
            member = it.call(A, [], {"s": "t"})
            g = it.call(base.g["GroupedRecord"], ["c05/grp", [member, it.call(B, [], {"k": 1})]], {})
            before = snapshot(member)
            try:
                it.setattr_(g, "x", SInt(x))
                it.setattr_(g, "s", b"by\xfftes")
                return "accepted", well_typed(member, "x", typename) or well_typed(member, "s", "string"), packable(member), member
            except PyRaise as e:
                return "rejected", e.cls_name, snapshot(member) == before, member

        def judge(p, hi=hi, typename=typename):
            r = p.value
            if r[0] == "accepted":
                if r[1] or r[2]:
                    return False, f"value accepted through the grouped record is not well typed / packable: {r[1] or r[2]}"
                return z3.And(x >= 0, x <= hi, it.zint(r[3].attrs["x"]) == x), f"{typename} accepted a value outside 0..{hi} through a grouped record (or stored a different value)"
            return z3.And(z3.Or(x < 0, x > hi), z3.BoolVal(bool(r[2]))), f"{typename} rejected a representable value through a grouped record, or the rejected assignment changed the member (unchanged: {r[2]})"

        pack.add(Obligation(name, lambda tier, name=name, th=th, judge=judge: prove_paths(name, th, judge, lambda m, p: {"x": model_value(m, x) if m is not None else 0}),
                            replay=lambda w, typename=typename: {"call": "c05_grouped_assign", "args": {"ftype": typename, "x": w.get("x") or 0}}, functions=FU))

    # ---- A2c. the outcome for a candidate does not depend on what was offered before: a float is not an address, also after the equal integer was accepted
    for typename, first, second in (("net.ipaddress", "167772161", "167772161.0"), ("net.ipaddress[]", "167772161", "167772161.0"), ("net.ipnetwork", "'10.0.0.0/8'", "b'10.0.0.0/8' + b''")):
        name = f"C05.history[{typename}: {first} accepted, then {second}]"

        def th(typename=typename, first=first, second=second):
            D = it.call(RD, ["c05/rec", [(typename, "x"), ("varint", "n")]], {})
            lst = typename.endswith("[]")
            a, b = it.call(D, [], {"n": 1}), it.call(D, [], {"n": 2})
            it.setattr_(a, "x", [pyvalue(first)] if lst else pyvalue(first))
            fresh_outcome = None
            try:
                it.setattr_(b, "x", [pyvalue(second)] if lst else pyvalue(second))
                v = b.attrs["x"]
                return "accepted", well_typed(b, "x", typename), packable(b)
            except PyRaise as e:
                return "rejected", None, None

        def judge(p, second=second, typename=typename):
            r = p.value
            if second.endswith(".0"):
                return r[0] == "rejected", f"{typename} accepted the float {second} after the equal integer had been accepted (a float is not an address)"
            return r[0] == "rejected" or not (r[1] or r[2]), f"after an earlier assignment: {r}"

        pack.add(Obligation(name, lambda tier, name=name, th=th, judge=judge: prove_paths(name, th, judge, lambda m, p: {}), replay=lambda w, typename=typename, first=first, second=second: {"call": "c05_history_pair", "args": {"ftype": typename, "first": first, "second": second}}, functions=FU, mode="representative pairs of equal-but-different candidates"))

    # ---- A2d. a digest given as bytes is hex text like any other: the field exposes text (what the JSON adapter can write and read back)
    def th_digest_bytes():
        D = it.call(RD, ["c05/rec", [("digest", "x"), ("varint", "n")]], {})
        rec = it.call(D, [], {"n": 1})
        it.setattr_(rec, "x", (b"d41d8cd98f00b204e9800998ecf8427e", b"da39a3ee5e6b4b0d3255bfef95601890afd80709", None))
        d = rec.attrs["x"]
        return [it.type_name(it.getattr_(d, a)) for a in ("md5", "sha1")], [it.unbase(it.getattr_(d, a)) for a in ("md5", "sha1")], packable(rec)

    pack.add(Obligation("C05.digest[hashes given as bytes]", lambda tier: prove_paths("C05.digest[hashes given as bytes]", th_digest_bytes, lambda p: (p.value == (["str", "str"], ["d41d8cd98f00b204e9800998ecf8427e", "da39a3ee5e6b4b0d3255bfef95601890afd80709"], None), f"a digest given as bytes exposes md5 / sha1 as {p.value[0]} {p.value[1]} (packable: {p.value[2] or 'yes'})"), lambda m, p: {}, allow_raise=("TypeError",)),
                        replay=lambda w: {"call": "c05_digest_bytes", "args": {}}, functions=FU, mode="representative value"))

    # ---- A2e. augmented assignment to a typed list field is an assignment: the elements it adds are converted or the assignment is rejected
    for typename, extra in (("uint16[]", "[70000]"), ("uint16[]", "[80, 'x']"), ("string[]", "[b'by\\xfftes']"), ("uint16[]", "[2, 3, 70000, 4]"), ("net.ipaddress[]", "['1.2.3.4', 'no address']"), ("uint32[]", "(v for v in (7, -1))")):
        name = f"C05.iadd[{typename} += {extra}]"

        def th(typename=typename, extra=extra):
            D = it.call(RD, ["c05/rec", [(typename, "x"), ("varint", "n")]], {})
            rec = it.call(D, [], {"x": [1] if typename.startswith("uint") else ["9.9.9.9"] if typename.startswith("net") else ["a"], "n": 1})
            before = snapshot(rec)
            cur = rec.attrs["x"]
            try:
                f = cur.cls.find("__iadd__")
                new_v = it.call(PBound(f, cur), [pyvalue(extra)], {}) if isinstance(f, PFunc) else (cur.base.extend(pyvalue(extra)) or cur)  # x += y: list.__iadd__ extends in place and hands the same object back
                it.setattr_(rec, "x", new_v)
            except PyRaise as e:
                # a refused addition leaves the record as it was: same list object, same elements
                return "rejected", None if snapshot(rec) == before else f"the refused addition changed the record: the field holds {len(rec.attrs['x'].base)} element(s), {len(before and [b for b in before if b[0] == 'x'][0][2])} before", None
            return "accepted", well_typed(rec, "x", typename), packable(rec)

        pack.add(Obligation(name, lambda tier, name=name, th=th, typename=typename, extra=extra: prove_paths(name, th, lambda p: (not (p.value[1] or p.value[2]), f"after x += {extra} the {typename} field is not well typed / packable / unchanged: {p.value[1] or p.value[2]}"), lambda m, p: {}),
                            replay=lambda w, typename=typename, extra=extra: {"call": "c05_iadd", "args": {"ftype": typename, "extra": extra}}, functions=FU, mode="representative additions"))

    # ---- A2f. "naive timestamps become UTC" - whatever form the naive value arrives in (text, bytes, datetime object, list element, assignment) and whatever
    #      the display time zone is set to (the display setting is about printing)
    import datetime as _dtm
    import zoneinfo as _zi

    for disp_name, disp in (("UTC", _dtm.timezone.utc), ("Europe/Amsterdam", _zi.ZoneInfo("Europe/Amsterdam")), ("a fixed offset of -07:00", _dtm.timezone(_dtm.timedelta(hours=-7))), ("no display zone", None)):
        for form, src in (("text", "'2024-07-01T12:00:00'"), ("text with a blank", "'2024-01-15 08:30:00.5'"), ("bytes", "b'2024-07-01T12:00:00'"), ("naive datetime object", "DT(2024, 7, 1, 12, 0, 0)")):
            name = f"C05.naive_is_utc[{form} {src}, display zone {disp_name}]"

            def th(src=src, disp=disp):
                saved = ft.g["DISPLAY_TZINFO"]
                ft.g["DISPLAY_TZINFO"] = disp
                try:
                    D = it.call(RD, ["c05/ts", [("datetime", "x"), ("datetime[]", "l")]], {})
                    r = it.call(D, [], {"x": pyvalue(src), "l": [pyvalue(src)]})
                    r2 = it.call(D, [], {})
                    it.setattr_(r2, "x", pyvalue(src))
                    vals = [r.attrs["x"], r.attrs["l"].base[0], r2.attrs["x"]]
                    return [(it.unbase(v).utcoffset(), it.unbase(v).replace(tzinfo=None).isoformat()) for v in vals]
                finally:
                    ft.g["DISPLAY_TZINFO"] = saved

            def judge(p, src=src):
                want = eval(src, dict(V.NS))
                want = _dtm.datetime.fromisoformat(want.decode() if isinstance(want, bytes) else want) if not isinstance(want, _dtm.datetime) else want
                ok = all(off == _dtm.timedelta(0) and wall == want.isoformat() for off, wall in p.value)
                return ok, f"a naive timestamp given as {src} is held as {p.value!r}: must be the same wall clock at UTC offset 0"

            pack.add(Obligation(name, lambda tier, name=name, th=th, judge=judge: prove_paths(name, th, judge, lambda m, p: {}), replay=lambda w, src=src, disp_name=disp_name: {"call": "c05_naive", "args": {"src": src, "display": disp_name}}, functions=FU, mode="representative values x display zones"))

    # ---- A2g. the documented empty default of an unset list / digest field belongs to ONE record: filling it in place in one record leaves every other record
    #      of the type (made before, made afterwards, decoded from a stream) with its own empty default
    def th_defaults():
        D = it.call(RD, ["c05/def", [("string[]", "tags"), ("digest", "dg"), ("uint16[]", "ports"), ("varint", "n")]], {})
        before = it.call(D, [], {"n": 0})
        a = it.call(D, [], {"n": 1})
        a.attrs["tags"].base.append(it.call(base.g["fieldtype"], ["string"], {}) and "suspicious")
        it.setattr_(a.attrs["dg"], "md5", "d41d8cd98f00b204e9800998ecf8427e")
        a.attrs["ports"].base.append(80)
        after = it.call(D, [], {"n": 2})
        decoded = it.call(it.getattr_(D.attrs["recordType"], "_unpack"), [None, None, None, 3], {}) if False else None
        out = []
        for r in (before, after):
            out.append((len(r.attrs["tags"].base), it.unbase(it.getattr_(r.attrs["dg"], "md5")), len(r.attrs["ports"].base), r.attrs["tags"] is a.attrs["tags"], r.attrs["dg"] is a.attrs["dg"]))
        return out

    pack.add(Obligation("C05.defaults[an unset list / digest field filled in place in one record, other records of the type]", lambda tier: prove_paths("C05.defaults", th_defaults, lambda p: (all(o == (0, None, 0, False, False) for o in p.value), f"records that never set the fields hold (len(tags), dg.md5, len(ports), same list object, same digest object) = {p.value!r}"), lambda m, p: {}),
                        replay=lambda w: {"call": "c05_defaults", "args": {}}, functions=FU, mode="concrete history over three records of one type"))

    # ---- A3. a number that is not an integer offered to an integer-valued field: converted to an integer or rejected - never kept as it is
    for typename, src, must_reject in (("uint16", "1.5", False), ("uint32", "2.5", False), ("net.tcp.Port", "80.5", False), ("uint16", "80.0", False), ("boolean", "0.5", True), ("boolean", "1.0", False), ("uint16[]", "1.5", False), ("uint16", "65535.5", True)):
        name = f"C05.nonintegral[{typename} <- {src}]"

        def th(typename=typename, src=src):
            D = it.call(RD, ["c05/rec", [(typename, "x"), ("varint", "n")]], {})
            rec = it.call(D, [], {"n": 1})
            before = snapshot(rec)
            v = float(src)
            try:
                it.setattr_(rec, "x", [v] if typename.endswith("[]") else v)
            except PyRaise as e:
                return "rejected", snapshot(rec) == before, None, None
            stored = rec.attrs["x"]
            stored = stored.base[0] if typename.endswith("[]") else stored
            packed = it.call(it.getattr_(stored, "_pack"), [], {}) if isinstance(stored, PObj) and stored.cls.find("_pack") else stored
            return "accepted", well_typed(rec, "x", typename), it.unbase(packed), it.unbase(stored)

        def judge(p, src=src, must_reject=must_reject, typename=typename):
            r = p.value
            if r[0] == "rejected":
                return bool(r[1]), "the rejected assignment changed the record"
            if must_reject:
                return False, f"{typename} accepted {src} (stored {r[3]!r}, packed as {r[2]!r}): a value the type cannot represent"
            if r[1]:
                return False, r[1]
            ok = isinstance(r[2], (int, bool)) and not isinstance(r[2], float) and r[2] == int(float(src)) and int(r[3]) == int(float(src))
            return ok, f"{typename} accepted {src} and holds {r[3]!r}, which is written as {r[2]!r} ({type(r[2]).__name__}): neither converted to an integer nor rejected"

        pack.add(Obligation(name, lambda tier, name=name, th=th, judge=judge: prove_paths(name, th, judge, lambda m, p: {}), replay=lambda w, typename=typename, src=src, must_reject=must_reject: {"call": "c05_nonintegral", "args": {"ftype": typename, "src": src, "must_reject": must_reject}}, functions=FU, mode="representative values"))

    # ---- A4. a NAIVE value of the timestamp field's own class (what value.replace(tzinfo=None) returns since Python 3.12, the constructor is not run for it):
    #          offered back to a timestamp field it must come out timezone-aware like every other naive input
    for how in ("assign", "replace-copy", "list"):
        name = f"C05.naive[{how}: value.replace(tzinfo=None) of a timestamp field value]"

        def th(how=how):
            D = it.call(RD, ["c05/rec", [("datetime", "x"), ("datetime[]", "xs"), ("varint", "n")]], {})
            rec = it.call(D, [], {"x": _dt.datetime(2020, 1, 2, 3, 4, 5, tzinfo=_dt.timezone(_dt.timedelta(hours=2))), "n": 1})
            naive = it.call(it.getattr_(rec.attrs["x"], "replace"), [], {"tzinfo": None})
            if how == "assign":
                it.setattr_(rec, "x", naive)
                v = rec.attrs["x"]
            elif how == "replace-copy":
                v = it.call(it.getattr_(rec, "_replace"), [], {"x": naive}).attrs["x"]
            else:
                it.setattr_(rec, "xs", [naive])
                v = rec.attrs["xs"].base[0]
            b = it.unbase(v)
            return it.type_name(v), b.tzinfo is not None, (b.year, b.hour)

        pack.add(Obligation(name, lambda tier, name=name, th=th: prove_paths(name, th, lambda p: (p.value[1] is True, f"the field holds a {p.value[0]} without time zone ({p.value[2]})")), replay=lambda w, how=how: {"call": "c05_naive_own_class", "args": {"how": how}}, functions=FU, mode="the three ways a value enters a field"))

    # ---- B. symbolic text into string-like fields; symbolic int into varint-like fields: always accepted, typed, value preserved, packable
    sv = z3.String("s")
    ENCODABLE = z3.Star(z3.Union(z3.Range(chr(0), chr(0xD7FF)), z3.Range(chr(0xDC80), chr(0xDCFF)), z3.Range(chr(0xE000), chr(0x2FFFF))))
    for typename in ("string", "uri", "string[]"):
        name = f"C05.packable[{typename},any text]"

        def th(typename=typename):
            D = it.call(RD, ["c05/rec", [(typename, "x"), ("varint", "n")]], {})
            rec = it.call(D, [], {"n": 1})
            it.setattr_(rec, "x", [SStr(sv)] if typename.endswith("[]") else SStr(sv))
            return packable(rec)

        pack.add(Obligation(name, lambda tier, name=name, th=th: prove_paths(name, th, lambda p: (p.value is None, f"an accepted text value cannot be serialised: {p.value}"), lambda m, p: {"ftype": typename, "s": model_value(m, sv) if m is not None else ""}),
                            replay=lambda w, typename=typename: {"call": "c05_expect", "args": {"ftype": typename, "src": repr([w.get("s") or ""]) if typename.endswith("[]") else repr(w.get("s") or ""), "valid": True}}, functions=FU))
    # ... and by the JSON writer, line by line or indented, onto a text file opened the way the writer opens it
    jfm = L.import_module("flow.record.adapter.jsonfile")
    for typename in ("string", "uri", "string[]"):
        for indent in (None, 2):
            name = f"C05.writable[json{'' if indent is None else ' indent=2'}, {typename}, any text]"

            def th(typename=typename, indent=indent):
                it.vfs, it.vfs_auto, it.vfs_events, it.vfs_dirs = {}, True, [], set()
                D = it.call(RD, ["c05/rec", [(typename, "x"), ("varint", "n")]], {})
                rec = it.call(D, [], {"n": 1})
                it.assume(z3.InRe(sv, ENCODABLE))
                it.setattr_(rec, "x", [SStr(sv)] if typename.endswith("[]") else SStr(sv))
                try:
                    w = it.call(jfm.g["JsonfileWriter"], ["/abs/out.json"], {"indent": indent})
                    it.call(it.getattr_(w, "write"), [rec], {})
                    it.call(it.getattr_(w, "close"), [], {})
                    return None
                except PyRaise as e:
                    return f"the JSON writer raised {e.cls_name}: {e}"

            pack.add(Obligation(name, lambda tier, name=name, th=th: prove_paths(name, th, lambda p: (p.value is None, f"an accepted text value cannot be written: {p.value}"), lambda m, p: {"s": model_value(m, sv) if m is not None else ""}),
                                replay=lambda w, typename=typename, indent=indent: {"call": "c05_json_writable", "args": {"ftype": typename, "src": repr([w.get("s") or ""]) if typename.endswith("[]") else repr(w.get("s") or ""), "indent": indent}}, functions=FU))
    for typename in ("string", "wstring", "uri", "string[]", "stringlist", "dynamic"):
        name = f"C05.accept[{typename}]"

        def th(typename=typename):
            D = it.call(RD, ["c05/rec", [(typename, "x"), ("varint", "n")]], {})
            rec = it.call(D, [], {"n": 1})
            it.assume(z3.InRe(sv, ENCODABLE))  # text that utf-8/surrogateescape can encode; the complement is the known finding C05.packable[...,any text]
            it.setattr_(rec, "x", [SStr(sv)] if typename in ("string[]", "stringlist") else SStr(sv))
            return well_typed(rec, "x", typename), packable(rec), rec

        def judge(p, typename=typename):
            wt, pb, rec = p.value
            if wt or pb:
                return False, wt or pb
            v = rec.attrs["x"]
            e = v.base[0] if typename in ("string[]", "stringlist") else v
            return it.zstr(e) == sv, "the stored text differs from the assigned text"

        pack.add(Obligation(name, lambda tier, name=name, th=th, judge=judge: prove_paths(name, th, judge, lambda m, p: {"ftype": typename, "s": model_value(m, sv) if m is not None else ""}),
                            replay=lambda w, typename=typename: {"call": "c05_expect", "args": {"ftype": typename, "src": repr([w.get("s") or ""]) if typename in ("string[]", "stringlist") else repr(w.get("s") or ""), "valid": True}}, functions=FU))
    for typename in ("varint", "filesize", "unix_file_mode", "varint[]", "dynamic"):
        name = f"C05.accept_int[{typename}]"

        def th(typename=typename):
            D = it.call(RD, ["c05/rec", [(typename, "x"), ("varint", "n")]], {})
            rec = it.call(D, [], {"n": 1})
            it.setattr_(rec, "x", [SInt(x)] if typename.endswith("[]") else SInt(x))
            return well_typed(rec, "x", typename), packable(rec), rec

        def judge(p, typename=typename):
            wt, pb, rec = p.value
            if wt or pb:
                return False, wt or pb
            v = rec.attrs["x"]
            return it.zint(v.base[0] if typename.endswith("[]") else v) == x, "the stored integer differs from the assigned integer"

        pack.add(Obligation(name, lambda tier, name=name, th=th, judge=judge: prove_paths(name, th, judge, lambda m, p: {"ftype": typename, "x": model_value(m, x) if m is not None else 0}),
                            replay=lambda w, typename=typename: {"call": "c05_expect", "args": {"ftype": typename, "src": ("[%d]" if typename.endswith("[]") else "%d") % (w.get("x") or 0), "valid": True}}, functions=FU))

    # ---- C. digest setters over symbolic text: accepted <=> hex of the right length; a rejected value leaves the digest unchanged
    hexd = z3.Union(z3.Range("0", "9"), z3.Range("a", "f"), z3.Range("A", "F"))
    for attr, ndig in (("md5", 32), ("sha1", 40), ("sha256", 64)):
        name = f"C05.digest[{attr}]"

        def th(attr=attr):
            D = it.call(RD, ["c05/rec", [("digest", "x"), ("varint", "n")]], {})
            rec = it.call(D, [], {"x": ("d41d8cd98f00b204e9800998ecf8427e", "da39a3ee5e6b4b0d3255bfef95601890afd80709", "e3b0c44298fc1c149afbf4c8996fb92427ae41e4649b934ca495991b7852b855"), "n": 1})
            d = rec.attrs["x"]
            before = dict(d.attrs)
            try:
                it.setattr_(d, attr, SStr(sv))
                return "accepted", it.getattr_(d, attr), packable(rec), None
            except PyRaise as e:
                return "rejected", e.cls_name, all(d.attrs.get(k) is v for k, v in before.items()) and set(d.attrs) == set(before), [k for k in d.attrs if d.attrs.get(k) is not before.get(k)]

        def judge(p, ndig=ndig, attr=attr):
            r = p.value
            spec = z3.InRe(sv, z3.Loop(hexd, ndig, ndig))
            if r[0] == "accepted":
                if r[2]:
                    return False, f"accepted digest value is not packable: {r[2]}"
                return z3.And(spec, it.zstr(r[1]) == sv), f"digest.{attr} accepted text that is not {ndig} hex digits"
            if not r[2]:
                return False, f"digest.{attr} raised {r[1]} but changed the digest (attributes {r[3]})"
            return z3.Not(spec), f"digest.{attr} rejected a well-formed value"

        pack.add(Obligation(name, lambda tier, name=name, th=th, judge=judge: prove_paths(name, th, judge, lambda m, p, attr=attr: {"attr": attr, "s": model_value(m, sv) if m is not None else "00"}),
                            replay=lambda w: {"call": "c05_digest", "args": w}, functions=FU))

    # ---- D. list fields: a typed list of another element type is converted element-wise (class pairs: finite case analysis)
    def sample_of(t):
        return [pyvalue(s) for s in V.VALID.get(t, [])[:2]]

    for ta in V.LISTABLE:
        for tb in V.LISTABLE:
            name = f"C05.list[{ta}[]->{tb}[]]"

            def th(ta=ta, tb=tb):
                A = it.call(RD, ["c05/src", [(ta + "[]", "x")]], {})
                B = it.call(RD, ["c05/dst", [(tb + "[]", "y"), ("varint", "n")]], {})
                a = it.call(A, [], {"x": sample_of(ta)})
                b = it.call(B, [], {"n": 1})
                before = snapshot(b)
                try:
                    it.setattr_(b, "y", a.attrs["x"])
                    return "accepted", well_typed(b, "y", tb + "[]"), packable(b)
                except PyRaise as e:
                    return "rejected", None if snapshot(b) == before else "rejected assignment changed the record", None

            pack.add(Obligation(name, lambda tier, name=name, th=th: prove_paths(name, th, lambda p: (not (p.value[1] or p.value[2]), str(p.value[1] or p.value[2])), lambda m, p: {}),
                                replay=lambda w, ta=ta, tb=tb: {"call": "c05_list_pair", "args": {"src": ta, "dst": tb}}, functions=FU, mode="paths, representative element values"))
    pack.case_analyses.append(f"list element type pairs {len(V.LISTABLE)}x{len(V.LISTABLE)}: finite case analysis over classes, two representative elements each")

    # ---- D2. the legacy list types (stringlist, dictlist; dynamic given a list) do not convert their elements
    for typename in ("stringlist", "dictlist", "dynamic"):
        name = f"C05.legacy_list[{typename}]"

        def th(typename=typename):
            D = it.call(RD, ["c05/legacy", [(typename, "x")]], {})
            nw = it.call(it.call(base.g["fieldtype"], ["net.ipnetwork"], {}), ["10.0.0.0/8"], {})
            rec = it.call(D, [], {"x": [nw, 5]})
            return packable(rec)

        pack.add(Obligation(name, lambda tier, name=name, th=th: prove_paths(name, th, lambda p: (p.value is None, f"accepted a list of arbitrary objects that cannot be serialised: {p.value}"), lambda m, p: {}, allow_raise=("TypeError", "ValueError")),
                            replay=lambda w, typename=typename: {"call": "c05_legacy_list", "args": {"ftype": typename}}, functions=FU))

    # ---- E. construction and replace: every argument through __setattr__, defaults, metadata stamping; unknown names rejected; original untouched
    def th_init():
        D = it.call(RD, ["c05/init", [("uint16", "p"), ("string", "s"), ("string[]", "sl"), ("digest", "dg"), ("varint", "v")]], {})
        r1 = it.call(D, [], {"p": SInt(x), "s": SStr(sv)})
        r2 = it.call(D, [SInt(x), SStr(sv)], {})
        return r1, r2

    def judge_init(p):
        if p.kind == "raise":
            return z3.Or(x < 0, x > 0xFFFF), "construction failed for representable values"
        bad = []
        for r in p.value:
            a = r.attrs
            if set(a) != {"p", "s", "sl", "dg", "v", "_source", "_classification", "_generated", "_version"}:
                bad.append(f"slots {sorted(a)}")
            if not (isinstance(a["p"], PObj) and a["p"].cls.name == "uint16" and isinstance(a["s"], PObj) and a["s"].cls.name == "string"):
                bad.append("p / s not coerced")
            if not (isinstance(a["sl"], PObj) and a["sl"].base == [] and isinstance(a["dg"], PObj) and a["dg"].cls.name == "digest" and a["v"] is None and a["_source"] is None and a["_classification"] is None):
                bad.append("defaults: list / digest fields must get their empty default, other unset fields None")
            if not (isinstance(a["_generated"], PObj) and a["_generated"].cls.name == "datetime" and getattr(a["_generated"].base, "tzinfo", None) is not None):
                bad.append(f"_generated {a['_generated']!r} is not an aware timestamp")
            if not (isinstance(a["_version"], PObj) and a["_version"].cls.name == "varint" and a["_version"].base == 1):
                bad.append(f"_version {a['_version']!r}")
        if bad:
            return False, "; ".join(bad)
        return z3.And(x >= 0, x <= 0xFFFF, *[it.zint(r.attrs["p"]) == x for r in p.value], *[it.zstr(r.attrs["s"]) == sv for r in p.value]), "stored values differ from the arguments"

    pack.add(Obligation("C05.init", lambda tier: prove_paths("C05.init", th_init, judge_init, lambda m, p: {"x": model_value(m, x) if m is not None else 0, "s": model_value(m, sv) if m is not None else ""}, allow_raise=None),
                        replay=lambda w: {"call": "c05_init", "args": w}, functions=FU))

    # a field may be named like any identifier the generated class body uses (parameter capture): the metadata must still be stamped
    for fname in ("RECORD_VERSION", "Record", "setattr", "dict", "zip_longest", "utcnow", "self", "cls", "args", "kwargs", "values", "k", "v", "f", "field", "default", "super", "len", "tuple", "type", "isinstance"):
        name = f"C05.init.capture[{fname}]"

        def th(fname=fname):
            D = it.call(RD, ["c05/cap", [("varint", fname), ("string", "other")]], {})
            r1 = it.call(D, [], {fname: SInt(x), "other": "o"})
            r2 = it.call(D, [SInt(x)], {})
            r3 = it.call(it.getattr_(r1, "_replace"), [], {"other": "p"})
            return r1, r2, r3

        def judge(p, fname=fname):
            bad = []
            for r in p.value:
                a = r.attrs
                if not (isinstance(a["_version"], PObj) and a["_version"].cls.name == "varint" and a["_version"].base == 1):
                    bad.append(f"_version is {it.unbase(a['_version'])!r}, not RECORD_VERSION")
                if not (isinstance(a["_generated"], PObj) and a["_generated"].cls.name == "datetime"):
                    bad.append(f"_generated is {a['_generated']!r}")
                if not (isinstance(a[fname], PObj) and a[fname].cls.name == "varint"):
                    bad.append(f"field {fname} holds {it.type_name(a[fname])}")
            if bad:
                return False, f"a field named {fname}: " + "; ".join(bad)
            return z3.And(*[it.zint(r.attrs[fname]) == x for r in p.value]), f"field {fname}: stored value differs from the argument"

        pack.add(Obligation(name, lambda tier, name=name, th=th, judge=judge: prove_paths(name, th, judge, lambda m, p, fname=fname: {"fname": fname, "x": model_value(m, x) if m is not None else 7}),
                            replay=lambda w, fname=fname: {"call": "c05_capture", "args": {"fname": fname, "x": w.get("x") if isinstance(w.get("x"), int) else 7}}, functions=FU))

    def th_replace():
        D = it.call(RD, ["c05/rep", [("uint16", "p"), ("string", "s"), ("varint", "v")]], {})
        r = it.call(D, [], {"p": 1, "s": "old", "v": 5})
        before = snapshot(r)
        try:
            r2 = it.call(it.getattr_(r, "_replace"), [], {"p": SInt(x)})
        except PyRaise as e:
            return "rejected", e.cls_name, snapshot(r) == before, None
        try:
            it.call(it.getattr_(r, "_replace"), [], {"nosuchfield": 1})
            unknown = "accepted"
        except PyRaise as e:
            unknown = e.cls_name
        return "ok", r2, snapshot(r) == before, unknown, r

    def judge_replace(p):
        r = p.value
        if r[0] == "rejected":
            return z3.And(z3.Or(x < 0, x > 0xFFFF), z3.BoolVal(bool(r[2]))), "_replace rejected a representable value or changed the original"
        _, r2, same, unknown, r0 = r
        if not same or unknown == "accepted" or r2 is r0:
            return False, f"original changed: {not same}; unknown field name outcome: {unknown}"
        a = r2.attrs
        ok = isinstance(a["p"], PObj) and a["p"].cls.name == "uint16" and it.unbase(a["s"]) == "old" and it.unbase(a["v"]) == 5 and a["_generated"] is r0.attrs["_generated"]
        return z3.And(z3.BoolVal(bool(ok)), it.zint(a["p"]) == x, x >= 0, x <= 0xFFFF), "replaced copy differs from {named field: new value, others: old values}"

    pack.add(Obligation("C05.replace", lambda tier: prove_paths("C05.replace", th_replace, judge_replace, lambda m, p: {"x": model_value(m, x) if m is not None else 0}), replay=lambda w: {"call": "c05_replace", "args": w}, functions=FU))

    def th_unknown_attr():
        D = it.call(RD, ["c05/rep", [("uint16", "p")]], {})
        r = it.call(D, [], {"p": 1})
        try:
            it.setattr_(r, "nosuchfield", 1)
            return "accepted"
        except PyRaise as e:
            return e.cls_name

    pack.add(Obligation("C05.setattr.unknown", lambda tier: prove_paths("C05.setattr.unknown", th_unknown_attr, lambda p: (p.value == "AttributeError", f"assignment to an undeclared attribute: {p.value}")), functions=FU[:1]))

    # ---- F. sample inputs per type through the engine (kept apart: these are samples, not a proof for all inputs)
    def make_sample(t, src, valid, lst):
        typename = t + ("[]" if lst else "")
        s_ = "[" + src + "]" if lst else src
        name = f"C05.sample[{typename},{src},{'valid' if valid else 'invalid'}]"

        def th():
            D = it.call(RD, ["c05/rec", [(typename, "x"), ("varint", "n")]], {})
            rec = it.call(D, [], {"n": 1})
            before = snapshot(rec)
            try:
                it.setattr_(rec, "x", pyvalue(s_))
                return "accepted", well_typed(rec, "x", typename), packable(rec)
            except PyRaise as e:
                return "rejected", None if snapshot(rec) == before else "rejected assignment changed the record", None

        def judge(p):
            r = p.value
            if r[1] or r[2]:
                return False, str(r[1] or r[2])
            return (r[0] == "accepted") == valid, f"{typename} <- {src}: {r[0]}, expected {'accepted' if valid else 'rejected'}"

        return Obligation(name, lambda tier: prove_paths(name, th, judge, lambda m, p: {}), replay=lambda w: {"call": "c05_expect", "args": {"ftype": typename, "src": s_, "valid": valid}}, kind="bounded",
                          note="one sample input evaluated through the symbolic engine on the real constructors", functions=FU)

    for t in V.SCALARS:
        for valid, tab in ((True, V.VALID), (False, V.INVALID)):
            for src in tab.get(t, []):
                pack.add(make_sample(t, src, valid, False))
                if t in V.LISTABLE:
                    pack.add(make_sample(t, src, valid, True))

    # ---- G. decoding: a record frame that carries a value its field type cannot represent is refused (or coerced to a well-formed value), never stored as it is
    from contracts.streamlib import W, blob
    from pyvc.models.mp import MPBytes as _MPB

    DECODE = {"digest md5 of 3 bytes": ("digest", ("arr", [("leaf", b"abc"), ("leaf", None), ("leaf", None)])), "digest 16 bytes in the sha1 slot": ("digest", ("arr", [("leaf", None), ("leaf", b"x" * 16), ("leaf", None)])),
              "digest sha256 of 33 bytes": ("digest", ("arr", [("leaf", None), ("leaf", None), ("leaf", b"y" * 33)])), "uint16 of 70000": ("uint16", ("leaf", 70000)), "uint32 of -1": ("uint32", ("leaf", -1)), "boolean of 7": ("boolean", ("leaf", 7)),
              "bytes given text": ("bytes", ("leaf", "text")), "digest[] with a short hash": ("digest[]", ("arr", [("arr", [("leaf", b"ab"), ("leaf", None), ("leaf", None)])]))}
    for label, (typename, vtree) in DECODE.items():
        name = f"C05.decode[{label}]"

        def th(typename=typename, vtree=vtree):
            D = it.call(RD, ["c05/dec", [(typename, "x")]], {})
            nm = it.getattr_(D, "name")
            h = W.descriptor_hash(nm, [(typename, "x")])
            t = W.record_tree(blob, nm, h, [vtree, W.leaf(None), W.leaf(None), W.datetime_utc_tree(blob, 2020, 1, 2, 3, 4, 5, 6), W.leaf(1)])
            p_ = it.call(pk.g["RecordPacker"], [], {})
            it.call(it.getattr_(p_, "register"), [D], {})
            try:
                rec = it.call(it.getattr_(p_, "unpack"), [blob(t)], {})
            except PyRaise as e:
                return "refused", e.cls_name, None
            return "decoded", well_typed(rec, "x", typename), packable(rec)

        def judge(p, typename=typename):
            r = p.value
            if r[0] == "refused":
                return True
            # decoded: then it must be a well-formed value of the type that can be written again and whose digest members have the right sizes
            if r[1] or r[2]:
                return False, f"decoded into a malformed value: {r[1] or r[2]}"
            return True

        def check_digest_sizes(rec):
            return None

        pack.add(Obligation(name, lambda tier, name=name, th=th, judge=judge: prove_paths(name, th, judge, lambda m, p: {}), replay=lambda w, label=label: {"call": "c05_decode", "args": {"label": label}}, functions=FU, mode="representative malformed payloads in a conforming frame"))

    # ---- canary, conformance, bounded native sweep
    def run_canary(tier):
        def th():
            D = it.call(RD, ["c05/rec", [("uint16", "x")]], {})
            rec = it.call(D, [], {})
            it.setattr_(rec, "x", SInt(x))
            return rec

        return prove_paths("C05.canary", th, lambda p: x < 0xFFFF, lambda m, p: {}, allow_raise=("ValueError",))

    pack.add(Obligation("C05.canary", run_canary, kind="canary"))

    def run_cross(tier):
        reqs, mine = [], []
        for t in V.SCALARS:
            for src in V.VALID.get(t, []) + V.INVALID.get(t, []):
                def th(t=t, src=src):
                    D = it.call(RD, ["c05/rec", [(t, "x"), ("varint", "n")]], {})
                    rec = it.call(D, [], {"n": 1})
                    it.setattr_(rec, "x", pyvalue(src))
                    return rec.attrs["x"]

                try:
                    p = it.explore(th)[0]
                    mine.append("raise:" + exc_name(p) if p.kind == "raise" else "ok:" + it.type_name(p.value))
                except Unsupported as e:
                    mine.append(f"unsupported:{e}")
                reqs.append({"call": "c05_outcome", "args": {"ftype": t, "src": src}})
        native = native_batch(reqs)
        bad = [(r["args"], a, b.get("outcome")) for r, a, b in zip(reqs, mine, native) if a != b.get("outcome")]
        return Result("C05.cross", "proved" if not bad else "refuted", f"{len(bad)} disagreement(s): {bad[:5]}" if bad else "", paths=len(reqs))

    pack.add(Obligation("C05.cross", run_cross, kind="cross"))

    def run_sweep(tier):
        args = {"seed": seed, "n": 1500 if tier == "quick" else 20000}
        res = native_replay({"call": "c05_cross_types", "args": args})
        r = Result("C05.cross_type_sweep", "refuted" if res.get("violates") else ("proved" if "error" not in res else "error"), str(res.get("detail") or res.get("error") or "")[:300], paths=res.get("cases", 0))
        r.native, r.confirmed, r.request, r.witness = res, bool(res.get("violates")), {"call": "c05_cross_types", "args": args}, res.get("witness")
        return r

    pack.add(Obligation("C05.cross_type_sweep", run_sweep, kind="bounded", note="native run: values taken from a field of one type (scalar or list) assigned / constructed / _replace'd into a field of another type; accepted => well typed and serialisable, "
                        "rejected => record unchanged; bound: 1500 (quick) / 20000 (thorough) operations", functions=FU))
    pack.not_covered = ["decoding from JSON / Avro / SQLite (C14, C19, C18) and from the record stream (C01) reuse the same constructors but are judged there",
                        "string fields accept a lone surrogate that is not a surrogate-escape (e.g. '\\ud800'), which cannot be serialised: known finding, see known_findings.txt",
                        "datetime / path / command / ip constructors are exercised on sample inputs (bounded), their parsing is the standard library's"]
    pack.assumptions += ["binascii.a2b_hex(s) succeeds exactly for an even number of hex digits and yields len(s)/2 bytes", "msgpack tree model (see C01)"]
    return pack

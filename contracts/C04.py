"""C04 - a damaged stream yields an intact prefix, never altered records.

Contracts on the real flow/record/stream.py (with packer.py underneath), file objects and msgpack replaced by their assumed contracts:

  RecordStreamReader.readheader()   consumes exactly the 19-byte header frame; a stream that ends inside the header, or does not carry the magic, is refused (IOError)
  RecordStreamReader.read()         rest = BE32(n) ++ body ++ _ , |body| = n  -> returns unpack(body), position advanced by exactly 4 + n
                                    |rest| < 4                               -> EOFError
                                    rest = BE32(n) ++ part, |part| < n       -> raises (msgpack: a proper prefix never decodes), never returns a value
  RecordStreamReader.__iter__()     loop invariant (proved for one arbitrary iteration from an arbitrary registry / arbitrary following bytes, loop cut at the head):
                                    a magic frame yields nothing; a descriptor frame only updates the registry; a record frame whose identifier is registered yields
                                    exactly that record decoded with the registered descriptor; an unknown identifier raises; < 4 bytes left ends the iteration normally;
                                    a truncated body raises; in every case nothing else is yielded and the position is the next frame boundary
  RecordStreamWriter.write(obj)     the fp.write calls are, in order: [header length, header body]? ++ (descriptor length, descriptor body)* ++ record length, record body,
                                    each length the 4-byte big-endian size of the body that follows; if the k-th fp.write fails the exception propagates and the file holds
                                    exactly the first k segments (a prefix of the intended stream), for every k
"""
import z3

from .streamlib import *  # noqa

FIELDS = [("varint", "n"), ("string", "s")]
OTHER = [("string", "s"), ("varint", "n"), ("uint16", "p")]


def build(tier="quick", seed=0):
    it, L, base, pk, st = mods()
    pack = new_pack("C04", "A damaged stream yields an intact prefix, never altered records")
    RD, GR = base.g["RecordDescriptor"], base.g["GroupedRecord"]
    FU = ("flow.record.stream:RecordStreamReader.__init__", "flow.record.stream:RecordStreamReader.readheader", "flow.record.stream:RecordStreamReader.read", "flow.record.stream:RecordStreamReader.__iter__",
          "flow.record.stream:RecordStreamWriter.write", "flow.record.stream:RecordStreamWriter.writeheader", "flow.record.stream:RecordStreamWriter.flush", "flow.record.stream:RecordStreamWriter.on_new_descriptor",
          "flow.record.packer:RecordPacker.pack", "flow.record.packer:RecordPacker.unpack", "flow.record.packer:RecordPacker.pack_obj", "flow.record.packer:RecordPacker.unpack_obj", "flow.record.packer:RecordPacker.register")
    x, m = z3.Int("x"), z3.Int("m")
    sv = z3.String("s")
    QN = "RecordStreamReader.__iter__"

    def with_cut(f):
        def g():
            it.loop_cut = {QN: 1}
            try:
                return f()
            finally:
                it.loop_cut = {}
        return g

    # ---------------------------------------------------------------- A. header
    for k in range(len(HEADER_FRAME)):
        name = f"C04.header.cut[{k}]"

        def th(k=k):
            fp = AbsFile(it, [HEADER_FRAME[:k]] if k else [])
            it.call(st.g["RecordStreamReader"], [fp], {})
            return "accepted"

        pack.add(Obligation(name, lambda tier, name=name, th=th: prove_paths(name, th, lambda p: (p.kind == "raise" and exc_name(p) in ("OSError", "IOError"), f"a stream cut inside the header was not refused: {p!r}"), lambda m_, p: {}, allow_raise=None),
                            replay=lambda w, k=k: {"call": "c04_cut", "args": {"records": 0, "cut": k, "gz": False}}, functions=FU[:2], mode="finite case analysis over the 19 header bytes"))
    pack.case_analyses.append("header truncation: every cut position 0..18 of the 19-byte header frame (exhaustive)")

    def th_header_ok():
        tail = sym_tail(it)
        fp = AbsFile(it, [HEADER_FRAME, tail])
        rd = it.call(st.g["RecordStreamReader"], [fp], {})
        return fp.remaining() == [tail] and rd.attrs["packer"].attrs["descriptors"] == {} and rd.attrs["closed"] is False

    pack.add(Obligation("C04.header.ok", lambda tier: prove_paths("C04.header.ok", th_header_ok, lambda p: (p.value is True, "the constructor does not leave the reader at the first frame boundary with an empty registry")), functions=FU[:2]))

    def th_header_bad():
        fp = AbsFile(it, [b"\x00\x00\x00\x0f\xc4\x0dRECORDSTREAM\r", sym_tail(it)])
        it.call(st.g["RecordStreamReader"], [fp], {})

    pack.add(Obligation("C04.header.notmagic", lambda tier: prove_paths("C04.header.notmagic", th_header_bad, lambda p: (p.kind == "raise" and exc_name(p) in ("OSError", "IOError"), "a stream without the magic was accepted"), allow_raise=None), functions=FU[:2]))

    # ---------------------------------------------------------------- B. one arbitrary iteration of the reader loop
    def registry(D, Dother, with_D=True):
        """Arbitrary registry: any key may be present (then it maps to `Dother`), D is registered under its identifier (and name) iff with_D."""
        reg = SymDict("R")
        reg.default = Dother
        if with_D:
            it.setitem(reg, D.attrs["identifier"] if "identifier" in D.attrs else it.getattr_(D, "identifier"), D)
        return reg

    def two_descs():
        D = it.call(RD, ["c04/rec", list(FIELDS)], {})
        Do = it.call(RD, ["c04/rec", list(OTHER)], {})  # same name, different fields (and therefore a different identifier)
        return D, Do

    def run_iter(rd):
        return drain(it, it.call(it.getattr_(rd, "__iter__"), [], {}))

    def th_record():
        D, Do = two_descs()
        r = it.call(D, [], {"n": SInt(x), "s": SStr(sv)})
        tail = sym_tail(it)
        fp, rd = reader_at_loop_head(it, st, frame_of(it, pk, r) + [tail], registry(D, Do))
        out, end = run_iter(rd)
        return r, out, end, fp.remaining() == [tail], [isinstance(o, PObj) and it.getattr_(o, "_desc") is D for o in out]

    def judge_record(p):
        if p.kind == "raise":
            # the writer side of the harness (packing r) may fail for text that cannot be encoded: not a reader path
            return exc_name(p) in ("UnicodeEncodeError", "error"), f"harness raised {exc_text(p)}"
        r, out, end, at_boundary, desc_ok = p.value
        if end != "cut" or len(out) != 1 or not at_boundary:
            return False, f"a complete record frame: yielded {len(out)} object(s), ended with {end if isinstance(end, str) else end[:2]}, at the next frame boundary: {at_boundary}"
        o = out[0]
        if not all(desc_ok):
            return False, f"the record was not rebuilt with the registered descriptor: {o!r}"
        return same_record(it, r, o, ["n", "s", "_source", "_classification", "_generated", "_version"])

    pack.add(Obligation("C04.iter.step[record]", lambda tier: prove_paths("C04.iter.step[record]", with_cut(th_record), judge_record, lambda m_, p: {"x": model_value(m_, x), "s": model_value(m_, sv)}, allow_raise=None),
                        replay=lambda w: {"call": "c04_roundtrip", "args": {"x": w.get("x") or 0, "s": w.get("s") or ""}}, functions=FU, mode="invariant (loop cut after one iteration, arbitrary registry and following bytes)"))

    def th_marker():
        """a record of a type without fields of its own (only the reserved fields): a complete frame like any other"""
        M = it.call(RD, ["c04/marker", []], {})
        Do = it.call(RD, ["c04/marker", list(OTHER)], {})
        r = it.call(M, [], {"_source": SStr(sv)})
        tail = sym_tail(it)
        fp, rd = reader_at_loop_head(it, st, frame_of(it, pk, r) + [tail], registry(M, Do))
        out, end = run_iter(rd)
        return r, out, end, fp.remaining() == [tail], [isinstance(o, PObj) and it.getattr_(o, "_desc") is M for o in out]

    def judge_marker(p):
        if p.kind == "raise":
            return exc_name(p) in ("UnicodeEncodeError", "error"), f"harness raised {exc_text(p)}"
        r, out, end, at_boundary, desc_ok = p.value
        if end != "cut" or len(out) != 1 or not at_boundary or not all(desc_ok):
            return False, f"a complete frame of a record type without fields: yielded {len(out)} object(s), ended with {end if isinstance(end, str) else end[:2]}, at the next frame boundary: {at_boundary}"
        return same_record(it, r, out[0], ["_source", "_classification", "_generated", "_version"])

    pack.add(Obligation("C04.iter.step[record of a type without fields]", lambda tier: prove_paths("C04.iter.step[record of a type without fields]", with_cut(th_marker), judge_marker, lambda m_, p: {"s": model_value(m_, sv)}, allow_raise=None),
                        replay=lambda w: {"call": "c04_roundtrip", "args": {"s": w.get("s") or "", "marker": True}}, functions=FU, mode="invariant (loop cut after one iteration, arbitrary registry and following bytes)"))

    def th_limits():
        """a complete frame may hold a value of any size the 4-byte length allows: the reader's decoder is not configured with smaller limits"""
        D, Do = two_descs()
        r = it.call(D, [], {"n": SInt(x), "s": SStr(sv)})
        fp, rd = reader_at_loop_head(it, st, frame_of(it, pk, r) + [sym_tail(it)], registry(D, Do))
        n0 = len(it.events)
        run_iter(rd)
        lim = []
        for e in it.events[n0:]:
            if e[0] == "unpackb-options":
                lim += [(k_, v_) for k_, v_ in e[1:-1] if isinstance(k_, str) and k_.startswith("max_") and isinstance(v_, int) and 0 <= v_ < 2**32 - 1 and not (k_ == "max_buffer_size" and v_ == 0)]  # (msgpack: max_buffer_size=0 means 2**32-1)
        return sorted(set(lim))

    pack.add(Obligation("C04.iter.limits[no size limit below what a frame can hold]", lambda tier: prove_paths("C04.iter.limits[no size limit below what a frame can hold]", with_cut(th_limits), lambda p: (p.kind == "raise" or p.value == [], f"the reader decodes frames with the limits {p.value if p.kind != 'raise' else ''}: a complete frame holding a larger value is not yielded (nor anything behind it)"), lambda m_, p: {}, allow_raise=None),
                        replay=lambda w: {"call": "c04_large_values", "args": {}}, functions=FU, mode="options of the decoder call (assumed msgpack contract: without max_* options a value of any size is decoded)"))

    def th_unknown():
        D, Do = two_descs()
        r = it.call(D, [], {"n": 5, "s": "7"})
        tail = sym_tail(it)
        reg = registry(D, Do, with_D=False)
        it.assume(z3.Not(it.contains(reg, it.getattr_(D, "identifier")).t))  # the identifier of the frame is not registered (the bare name may be)
        fp, rd = reader_at_loop_head(it, st, frame_of(it, pk, r) + [tail], reg)
        out, end = run_iter(rd)
        return out, end

    def judge_unknown(p):
        out, end = p.value
        return (not out and end != "cut"), f"a record whose descriptor identifier is not registered: yielded {len(out)}, ended with {end if isinstance(end, str) else end[:2]} (nothing may be yielded: the frame cannot be decoded with the descriptor it was written with)"

    pack.add(Obligation("C04.iter.step[unknown descriptor]", lambda tier: prove_paths("C04.iter.step[unknown descriptor]", with_cut(th_unknown), judge_unknown, lambda m_, p: {}),
                        replay=lambda w: {"call": "c04_unknown_identifier", "args": {}}, functions=FU, mode="invariant (loop cut)"))

    def th_descriptor():
        D, Do = two_descs()
        tail = sym_tail(it)
        reg = registry(D, Do, with_D=False)
        fp, rd = reader_at_loop_head(it, st, frame_of(it, pk, D) + [tail], reg)
        out, end = run_iter(rd)
        ident = it.getattr_(D, "identifier")
        got = it.getitem(reg, ident) if it.truth(it.contains(reg, ident)) else None
        isdesc = isinstance(got, PObj) and got.cls.name == "RecordDescriptor"
        same = isdesc and it.getattr_(got, "name") == it.getattr_(D, "name") and tuple(it.call(it.getattr_(got, "get_field_tuples"), [], {})) == tuple(it.call(it.getattr_(D, "get_field_tuples"), [], {}))
        return out, end, fp.remaining() == [tail], isdesc, same

    def judge_descriptor(p):
        out, end, at_boundary, isdesc, same = p.value
        if out or end != "cut" or not at_boundary:
            return False, f"a descriptor frame: yielded {len(out)}, ended {end if isinstance(end, str) else end[:2]}, boundary {at_boundary}"
        if not isdesc:
            return False, "the descriptor was not registered under its identifier"
        return same, "the registered descriptor differs from the one in the frame"

    pack.add(Obligation("C04.iter.step[descriptor]", lambda tier: prove_paths("C04.iter.step[descriptor]", with_cut(th_descriptor), judge_descriptor, lambda m_, p: {}),
                        replay=lambda w: {"call": "c04_roundtrip", "args": {"x": 1, "s": "a"}}, functions=FU, mode="invariant (loop cut)"))

    def th_magic():
        D, Do = two_descs()
        tail = sym_tail(it)
        fp, rd = reader_at_loop_head(it, st, [HEADER_FRAME, tail], registry(D, Do))
        out, end = run_iter(rd)
        return out, end, fp.remaining() == [tail]

    pack.add(Obligation("C04.iter.step[magic]", lambda tier: prove_paths("C04.iter.step[magic]", with_cut(th_magic), lambda p: (p.value == ([], "cut", True), f"a repeated header frame must be skipped: {p.value!r}")), functions=FU, mode="invariant (loop cut)"))

    def th_eof(nbytes):
        def th():
            D, Do = two_descs()
            fp, rd = reader_at_loop_head(it, st, [b"\x00\x00\x01\x00"[:nbytes]] if nbytes else [], registry(D, Do))
            return run_iter(rd)
        return th

    for nb in range(4):
        name = f"C04.iter.step[{nb} byte(s) left]"
        pack.add(Obligation(name, lambda tier, name=name, nb=nb: prove_paths(name, with_cut(th_eof(nb)), lambda p, nb=nb: (p.value[0] == [] and (p.value[1] == "stop" or (nb > 0 and isinstance(p.value[1], tuple))), f"{nb} byte(s) left: nothing may be yielded and the iteration must end{' normally' if nb == 0 else ' or raise'}: {p.value[0]!r} {p.value[1] if isinstance(p.value[1], str) else p.value[1][:2]}")),
                            replay=lambda w, nb=nb: {"call": "c04_cut", "args": {"records": 1, "cut": -1 - 0, "tail": nb, "gz": False}}, functions=FU, mode="invariant (loop cut); finite case analysis 0..3"))

    def th_eof_codec(nrecords):
        # a compressed stream whose file lacks the end-of-stream marker (the writing process died after a flush): the decompressing file object hands out
        # everything that was flushed and then RAISES EOFError instead of returning b"" - a stream that ends at a frame boundary still reads without error
        def th():
            D, Do = two_descs()
            recs = [it.call(D, [], {"n": SInt(x + i), "s": "v"}) for i in range(nrecords)]
            segs = []
            for r in recs:
                segs += frame_of(it, pk, r)
            fp = AbsFile(it, [HEADER_FRAME] + segs)
            fp.eof_raises = EOFError("Compressed file ended before the end-of-stream marker was reached")  # (known to whatever the reader's constructor puts in front of the file)
            rd = it.call(st.g["RecordStreamReader"], [fp], {})
            rd.attrs["packer"].attrs["descriptors"] = registry(D, Do)
            out, end = run_iter(rd)
            return len(out), end if isinstance(end, str) else end[:2]
        return th

    for k in (0, 1, 2):
        name = f"C04.iter[{k} complete frame(s), then the decompressor raises EOFError at the frame boundary]"
        pack.add(Obligation(name, lambda tier, name=name, k=k: prove_paths(name, th_eof_codec(k), lambda p, k=k: (p.value == (k, "stop"), f"{k} complete record frame(s) in a compressed stream without end-of-stream marker: yielded {p.value[0]}, ended {p.value[1]} (must yield them and end without error)"),
                            lambda m_, p: {}, allow_raise=("UnicodeEncodeError", "error")), replay=lambda w, k=k: {"call": "c04_gz_flushpoint", "args": {"records": k}}, functions=FU, mode="whole loop over 0..2 frames; file contract of a decompressing reader"))

    def th_extra_bytes(extra):
        # a frame whose body holds a complete packed record FOLLOWED by further bytes (what a reader sees behind a short or failed write in the middle of a
        # stream: frame boundaries no longer line up): nothing may be yielded from it
        def th():
            import struct as _struct

            D, Do = two_descs()
            r = it.call(D, [], {"n": 5, "s": "v"})
            pre, blob = frame_of(it, pk, r)
            if blob.concrete is None:
                raise Unsupported("concrete record without concrete bytes")
            body = blob.concrete + extra
            fp, rd = reader_at_loop_head(it, st, [_struct.pack(">I", len(body)), body], registry(D, Do))
            out, end = run_iter(rd)
            return len(out), end if isinstance(end, str) else end[:2]
        return th

    for extra in (b"\x05", b"\x00\x00\x00\x01\x0e", b"\xc0\xc0"):
        name = f"C04.iter.step[frame body = a packed record followed by {extra!r}]"
        pack.add(Obligation(name, lambda tier, name=name, extra=extra: prove_paths(name, with_cut(th_extra_bytes(extra)), lambda p: (p.value[0] == 0 and p.value[1] != "cut", f"a frame with bytes behind the packed value: yielded {p.value[0]}, ended {p.value[1]} (must yield nothing and end or raise)")),
                            replay=lambda w, extra=extra: {"call": "c04_extra_bytes", "args": {"extra": extra.hex()}}, functions=FU, mode="invariant (loop cut)"))

    def th_short_prefix(keep, nrec):
        # a SHORT write of the length prefix of the last frame (keep of its 4 bytes reach the file, the writer carries on): the reader must not yield anything for that frame
        def th():
            D, Do = two_descs()
            recs = [it.call(D, [], {"n": 5 + i, "s": "v"}) for i in range(nrec)]
            segs = []
            for i, r in enumerate(recs):
                pre, blob = frame_of(it, pk, r)
                if blob.concrete is None or not isinstance(pre, bytes):
                    raise Unsupported("concrete record without concrete bytes")
                segs += [pre[:keep] if i == nrec - 1 else pre, blob.concrete]
            fp, rd = reader_at_loop_head(it, st, [b"".join(segs)], registry(D, Do))
            out, end = drain(it, it.call(it.getattr_(rd, "__iter__"), [], {}))
            return [(it.type_name(o), it.unbase(o.attrs.get("n")) if isinstance(o, PObj) else None) for o in out], end if isinstance(end, str) else end[:2]
        return th

    for keep in (1, 2, 3):
        for nrec in (1, 2):
            name = f"C04.short_write[{keep} of the 4 length bytes of the last of {nrec} record frame(s) reach the file]"
            pack.add(Obligation(name, lambda tier, name=name, keep=keep, nrec=nrec: prove_paths(name, th_short_prefix(keep, nrec), lambda p, nrec=nrec: (p.value[0] == [("c04_rec", 5 + i) for i in range(nrec - 1)], f"read back {p.value[0]!r}, ended {p.value[1]}: exactly the {nrec - 1} completely written record(s) may be yielded")),
                                replay=lambda w, keep=keep, nrec=nrec: {"call": "c04_short_prefix", "args": {"keep": keep, "records": nrec}}, functions=FU, mode="whole loop, concrete frames"))

    def th_equal_frames_cut(cut_back):
        # two EQUAL record frames one behind the other, the file ends inside the second one: what the reader still holds of the first frame must not complete the second
        def th():
            D, Do = two_descs()
            r = it.call(D, [], {"n": 5, "s": "same"})
            pre, blob = frame_of(it, pk, r)
            if blob.concrete is None or not isinstance(pre, bytes):
                raise Unsupported("concrete record without concrete bytes")
            data = pre + blob.concrete + pre + blob.concrete
            fp, rd = reader_at_loop_head(it, st, [data[: len(data) - cut_back]], registry(D, Do))
            out, end = drain(it, it.call(it.getattr_(rd, "__iter__"), [], {}))
            return len(out), end if isinstance(end, str) else end[:2]
        return th

    for cut_back in (1, 3, 10):
        name = f"C04.iter[two equal record frames, the file ends {cut_back} byte(s) before the end of the second]"
        pack.add(Obligation(name, lambda tier, name=name, cut_back=cut_back: prove_paths(name, th_equal_frames_cut(cut_back), lambda p: (p.value[0] == 1, f"yielded {p.value[0]} record(s), ended {p.value[1]}: exactly the one completely written record may be yielded")),
                            replay=lambda w, cut_back=cut_back: {"call": "c04_equal_frames_cut", "args": {"cut_back": cut_back}}, functions=FU, mode="whole loop, concrete frames"))

    def th_eof_codec_path(nrecords, how):
        # the same through the path-based entry points: a .gz file on disk without end-of-stream marker, named by path / handed over as a file object
        def th():
            from pyvc.models.ext import MagicSeg

            D = it.call(RD, ["c04/rec", list(FIELDS)], {})
            fpw = AbsFile(it, mode="wb")
            w = it.call(st.g["RecordStreamWriter"], [fpw], {})
            it.call(it.getattr_(w, "flush"), [], {})
            for i in range(nrecords):
                it.call(it.getattr_(w, "write"), [it.call(D, [], {"n": SInt(x + i), "s": "v"})], {})
            f = AbsFile(it, [MagicSeg("gzip")] + fpw.content(), name="/abs/c04.records.gz", mode="rb")
            f.codec_truncated = True
            it.vfs, it.vfs_auto = {"/abs/c04.records.gz": f}, False
            base_ = L.import_module("flow.record.base")
            rd = it.call(base_.g["RecordReader"], ["/abs/c04.records.gz"], {}) if how == "path" else it.call(base_.g["RecordReader"], [], {"fileobj": it.m_open(it, "/abs/c04.records.gz", "rb")})
            out, end = drain(it, it.iterate(rd))
            return len(out), end if isinstance(end, str) else end[:2]
        return th

    for how in ("path", "file object"):
        for k in (0, 2):
            name = f"C04.path[a .gz file with {k} flushed record(s) and no end-of-stream marker, read by {how}]"
            pack.add(Obligation(name, lambda tier, name=name, k=k, how=how: prove_paths(name, th_eof_codec_path(k, how), lambda p, k=k: (p.value == (k, "stop"), f"yielded {p.value[0]}, ended {p.value[1]} (must yield the {k} flushed record(s) and end without error)"),
                                lambda m_, p: {}, allow_raise=("UnicodeEncodeError", "error")), replay=lambda w, k=k: {"call": "c04_gz_flushpoint", "args": {"records": k, "by_path": True}}, functions=FU + ("flow.record.base:open_path", "flow.record.base:open_stream"), mode="path-based entry, codec contract"))

    def th_short_mid(call, keep):
        # a write call in the MIDDLE of the stream takes only a part of what it is given (a raw file object; it returns the count) and the program writes on:
        # what is read back is exactly the records that were written - nothing altered, nothing skipped
        def th():
            D = it.call(RD, ["c04/blob", [("string", "s"), ("varint", "n"), ("bytes", "blob")]], {})
            fp = AbsFile(it, mode="wb")
            fp.short_at = (call, keep)
            w = it.call(st.g["RecordStreamWriter"], [fp], {})
            recs = [it.call(D, [], {"n": 10 + i, "s": "r%d" % i, "blob": b"A" * size, "_generated": GEN}) for i, size in enumerate(SIZES)]
            try:
                for r in recs:
                    it.call(it.getattr_(w, "write"), [r], {})
                accepted = len(SIZES)
            except PyRaise:
                accepted = None  # the writer noticed and raised: the caller knows
            segs = fp.content()
            if not all(isinstance(s_, (bytes, bytearray)) or getattr(s_, "concrete", None) is not None for s_ in segs):
                raise Unsupported("abstract segment in a concrete history")
            data = b"".join(s_ if isinstance(s_, (bytes, bytearray)) else s_.concrete for s_ in segs)
            rd = it.call(st.g["RecordStreamReader"], [AbsFile(it, [data])], {})
            out, end = drain(it, it.iterate(rd))
            return accepted, [(it.unbase(o.attrs.get("n")), it.unbase(o.attrs.get("s")), len(it.unbase(o.attrs.get("blob")) or b""), repr(it.unbase(o.attrs.get("_generated")))) if isinstance(o, PObj) else repr(o)[:40] for o in out], end if isinstance(end, str) else end[:2]
        return th

    SIZES = [10, 300, 250, 700, 40]
    import datetime as _dtm

    GEN = _dtm.datetime(2024, 5, 6, 7, 8, 9, 123456, tzinfo=_dtm.timezone.utc)

    def judge_short_mid_for(call):
        def judge_short_mid(p):
            accepted, out, end = p.value
            want = [(10 + i, "r%d" % i, size, repr(GEN)) for i, size in enumerate(SIZES)]
            damaged = (call - 4) // 2  # index of the record whose frame the short write hits (calls 0-1 header, 2-3 descriptor, then two per record)
            # what may come out: the records in front of the damaged frame, all of them; behind them only unaltered written records, in order (then an end or an error)
            rest, k = out[damaged:], damaged
            ok = out[:damaged] == want[:damaged]
            for o in rest:
                while k < len(want) and want[k] != o:
                    k += 1
                if k == len(want):
                    ok = False
                    break
                k += 1
            return ok, f"short write in the frame of record {damaged} (the writer {'raised' if accepted is None else 'returned normally'}): read back {[o if isinstance(o, str) else o[0] for o in out]!r} (ended {end}); written {[w_[0] for w_ in want]!r} - altered, invented or skipped-in-front-of-the-damage records"
        return judge_short_mid

    for call, keep in ((5, 1), (5, 20), (5, 31), (6, 1), (6, 3), (7, 10), (7, 47), (7, 347), (7, 349), (8, 0), (9, 60), (9, 299)):
        name = f"C04.short_write[write call {call} (of 2 per frame, after the header) stores {keep} byte(s) and says so, the program writes on]"
        pack.add(Obligation(name, lambda tier, name=name, call=call, keep=keep: prove_paths(name, th_short_mid(call, keep), judge_short_mid_for(call)), replay=lambda w, call=call, keep=keep: {"call": "c04_short_mid", "args": {"call": call, "keep": keep}}, functions=FU, mode="concrete history of four records, short write at a chosen call"))

    def th_complete_then_damage(k):
        # k complete record frames followed by a damaged frame on which the decoder RAISES (not the end-of-stream case): the k records come out before the error does
        def th():
            import struct as _struct

            D, Do = two_descs()
            segs = []
            for i in range(k):
                segs += frame_of(it, pk, it.call(D, [], {"n": SInt(x + i), "s": "v"}))
            pre, blob = frame_of(it, pk, it.call(D, [], {"n": 5, "s": "v"}))
            body = blob.concrete + b"\x05"
            segs += [_struct.pack(">I", len(body)), body]
            fp, rd = reader_at_loop_head(it, st, segs, registry(D, Do))
            out, end = drain(it, it.call(it.getattr_(rd, "__iter__"), [], {}))
            return len(out), end if isinstance(end, str) else end[:2]
        return th

    for k in (1, 3):
        name = f"C04.iter[{k} complete record frame(s), then a frame the decoder raises on: the complete ones are yielded first]"
        pack.add(Obligation(name, lambda tier, name=name, k=k: prove_paths(name, th_complete_then_damage(k), lambda p, k=k: (p.value[0] == k and p.value[1] != "stop", f"yielded {p.value[0]} of the {k} complete record(s), ended {p.value[1]}"), lambda m_, p: {}, allow_raise=("UnicodeEncodeError", "error")),
                            replay=lambda w, k=k: {"call": "c04_complete_then_damage", "args": {"k": k}}, functions=FU, mode="whole loop"))

    def th_embedded_stream(cut_back):
        # a record whose bytes field holds a WHOLE record stream (a collected *.records file); the outer stream is cut inside that frame: the records of the
        # embedded stream were never written to this stream and must not come out of it
        def th():
            B = it.call(RD, ["c04/blobrec", [("bytes", "data"), ("varint", "n")]], {})
            I = it.call(RD, ["c04/inner", [("varint", "k")]], {})
            inner_fp = AbsFile(it, mode="wb")
            wi = it.call(st.g["RecordStreamWriter"], [inner_fp], {})
            it.call(it.getattr_(wi, "write"), [it.call(I, [], {"k": 99})], {})
            inner = b"".join(s_ if isinstance(s_, (bytes, bytearray)) else s_.concrete for s_ in inner_fp.content())
            outer_fp = AbsFile(it, mode="wb")
            wo = it.call(st.g["RecordStreamWriter"], [outer_fp], {})
            it.call(it.getattr_(wo, "write"), [it.call(B, [], {"data": b"x", "n": 1})], {})
            it.call(it.getattr_(wo, "write"), [it.call(B, [], {"data": inner, "n": 2})], {})
            data = b"".join(s_ if isinstance(s_, (bytes, bytearray)) else s_.concrete for s_ in outer_fp.content())
            rd = it.call(st.g["RecordStreamReader"], [AbsFile(it, [data[: len(data) - cut_back]])], {})
            out, end = drain(it, it.iterate(rd))
            return [(it.type_name(o), it.unbase(o.attrs.get("n", o.attrs.get("k"))) if isinstance(o, PObj) else None) for o in out], end if isinstance(end, str) else end[:2]
        return th

    for cut_back in (1, 10):
        name = f"C04.iter[a bytes field holds a whole record stream, the outer stream ends {cut_back} byte(s) inside that frame]"
        pack.add(Obligation(name, lambda tier, name=name, cut_back=cut_back: prove_paths(name, th_embedded_stream(cut_back), lambda p: (p.value[0] == [("c04_blobrec", 1)], f"read back {p.value[0]!r} (ended {p.value[1]}): exactly the one completely written record may be yielded")),
                            replay=lambda w, cut_back=cut_back: {"call": "c04_embedded_stream", "args": {"cut_back": cut_back}}, functions=FU, mode="whole loop, concrete frames"))

    def th_symtail():
        D, Do = two_descs()
        t = z3.Int("t")
        it.assume(z3.And(t >= 1, t < 4))
        fp, rd = reader_at_loop_head(it, st, [SBytes(z3.Const("part", PyBytes), length=t)], registry(D, Do))
        return run_iter(rd)

    pack.add(Obligation("C04.iter.step[short length prefix]", lambda tier: prove_paths("C04.iter.step[short length prefix]", with_cut(th_symtail), lambda p: (p.value[0] == [] and p.value[1] != "cut", f"1..3 bytes left: {p.value[0]!r} {p.value[1] if isinstance(p.value[1], str) else p.value[1][:2]}")), functions=FU, mode="invariant (loop cut)"))

    def th_truncated():
        D, Do = two_descs()
        r = it.call(D, [], {"n": SInt(x), "s": "v"})
        pre, blob = frame_of(it, pk, r)
        it.assume(z3.And(m >= 0, m < blob.length))
        fp, rd = reader_at_loop_head(it, st, [pre, MPTrunc(blob, m)], registry(D, Do))
        return run_iter(rd)

    def judge_truncated(p):
        out, end = p.value
        return (not out and end != "cut"), f"a record frame whose body is cut: yielded {len(out)}, ended {end if isinstance(end, str) else end[:2]} (must yield nothing and end or raise)"

    pack.add(Obligation("C04.iter.step[truncated body]", lambda tier: prove_paths("C04.iter.step[truncated body]", with_cut(th_truncated), judge_truncated, lambda m_, p: {"cut": model_value(m_, m)}),
                        replay=lambda w: {"call": "c04_cut", "args": {"records": 1, "cut": -2, "gz": False}}, functions=FU, mode="invariant (loop cut)"))

    def th_truncated_desc():
        D, Do = two_descs()
        pre, blob = frame_of(it, pk, D)
        outs = []
        for cut in range(blob.length):
            fp, rd = reader_at_loop_head(it, st, [pre, blob.concrete[:cut]], registry(D, Do, with_D=False))
            outs.append(run_iter(rd))
        return outs

    def judge_truncated_desc(p):
        bad = [(i, o, e if isinstance(e, str) else e[:2]) for i, (o, e) in enumerate(p.value) if o or e == "cut"]
        return not bad, f"descriptor frame cut inside its body was not refused at offsets {bad[:3]}"

    pack.add(Obligation("C04.iter.step[truncated descriptor body]", lambda tier: prove_paths("C04.iter.step[truncated descriptor body]", with_cut(th_truncated_desc), judge_truncated_desc), functions=FU,
                        mode="finite case analysis over every cut of a concrete descriptor frame (byte level, msgpack specification codec)"))

    # ---------------------------------------------------------------- C. writer: call sequence, frame layout, failing writes
    def expected_segments(D, r, first):
        segs = []
        if first:
            segs += [HEADER_FRAME[:4], HEADER_FRAME[4:]]
        return segs

    def th_writer(fail_at=None, second=False):
        def th():
            D, _ = two_descs()
            r = it.call(D, [], {"n": SInt(x), "s": SStr(sv)})
            fp = AbsFile(it, mode="wb", fail_at=fail_at)
            w = it.call(st.g["RecordStreamWriter"], [fp], {})
            err = None
            try:
                it.call(it.getattr_(w, "write"), [r], {})
                if second:
                    it.call(it.getattr_(w, "write"), [r], {})
            except PyRaise as e:
                err = e.cls_name
            return fp, err, r, D
        return th

    def seg_ok(it_, segs):
        """The written segments form frames: (length, body) pairs with length == BE32(|body|); returns (ok, bodies)."""
        if len(segs) % 2:
            return False, []
        bodies = []
        for a, b in zip(segs[::2], segs[1::2]):
            want = length_prefix(it_, b) if isinstance(b, MPBytes) else None
            if want is None:
                return False, []
            if isinstance(want, bytes):
                if a != want:
                    return False, []
            elif not (isinstance(a, SBytes) and z3.is_true(z3.simplify(a.t == want.t))):
                return False, []
            bodies.append(b)
        return True, bodies

    def judge_writer(nrec):
        def judge(p):
            fp, err, r, D = p.value
            if err is not None:
                return err in ("UnicodeEncodeError", "error"), f"write raised {err}"
            ok, bodies = seg_ok(it, fp.content())
            if not ok:
                return False, f"the written segments are not (4-byte big-endian length, body) pairs: {fp.content()!r}"
            kinds = []
            for b in bodies:
                t = b.tree
                if t == ("leaf", MAGIC):
                    kinds.append("magic")
                elif t[0] == "ext" and t[1] == EXT and isinstance(t[2], MPBytes) and t[2].tree[0] == "arr":
                    sub = t[2].tree[1][0]
                    kinds.append({("leaf", 1): "record", ("leaf", 2): "descriptor"}.get(sub, f"sub{sub}"))
                else:
                    kinds.append(f"?{t[0]}")
            return kinds == ["magic", "descriptor"] + ["record"] * nrec, f"frame kinds written: {kinds}"
        return judge

    pack.add(Obligation("C04.writer.frames", lambda tier: prove_paths("C04.writer.frames", th_writer(), judge_writer(1), lambda m_, p: {}), replay=lambda w: {"call": "c04_roundtrip", "args": {"x": 1, "s": "a"}}, functions=FU))
    pack.add(Obligation("C04.writer.frames[2 records]", lambda tier: prove_paths("C04.writer.frames[2 records]", th_writer(second=True), judge_writer(2), lambda m_, p: {}), replay=lambda w: {"call": "c04_roundtrip", "args": {"x": 1, "s": "a"}}, functions=FU))

    for k in range(8):
        name = f"C04.writer.fail[{k}]"

        def judge_fail(p, k=k):
            fp, err, r, D = p.value
            if err in ("UnicodeEncodeError", "error"):
                return True
            if err != "OSError":
                return False, f"the failure of fp.write call {k} did not propagate (outcome {err})"
            ok_full = fp.nwrites == k + 1 and len(fp.content()) == k
            if not ok_full:
                return False, f"after the failing call {k}: {fp.nwrites} calls, {len(fp.content())} segments on disk"
            ok, _ = seg_ok(it, fp.content()[: (k // 2) * 2])
            return ok, "what is on disk is not a prefix of the intended frames"

        pack.add(Obligation(name, lambda tier, name=name, k=k, judge_fail=judge_fail: prove_paths(name, th_writer(fail_at=k, second=True), judge_fail, lambda m_, p: {}), replay=lambda w, k=k: {"call": "c04_fail", "args": {"index": k}}, functions=FU,
                            mode="finite case analysis over the 8 fp.write calls of header + descriptor + two records"))
    pack.case_analyses.append("failing fp.write index 0..7 (all calls of a header + descriptor + 2 record history); later records repeat the last two calls")

    # ---------------------------------------------------------------- canary, conformance, bounded native sweeps
    def run_canary(tier):
        def th():
            D, Do = two_descs()
            r = it.call(D, [], {"n": SInt(x), "s": "v"})
            pre, blob = frame_of(it, pk, r)
            it.assume(z3.And(m >= 0, m <= blob.length))  # deliberately includes the complete body: must be refuted
            fp, rd = reader_at_loop_head(it, st, [pre, MPTrunc(blob, m)], registry(D, Do))
            return run_iter(rd)

        def th2():  # deliberately false: "a complete frame yields nothing"
            D, Do = two_descs()
            r = it.call(D, [], {"n": 1, "s": "v"})
            fp, rd = reader_at_loop_head(it, st, frame_of(it, pk, r), registry(D, Do))
            return run_iter(rd)

        return prove_paths("C04.canary", with_cut(th2), lambda p: (not p.value[0], "canary"), lambda m_, p: {})

    pack.add(Obligation("C04.canary", run_canary, kind="canary"))

    def run_cross(tier):
        res = native_replay({"call": "c04_model_conformance", "args": {"seed": seed}})
        return Result("C04.cross", "proved" if res.get("ok") else "refuted", str(res.get("detail") or res.get("error") or "")[:300], paths=res.get("cases", 0))

    pack.add(Obligation("C04.cross", run_cross, kind="cross"))

    def run_sweep(tier):
        args = {"seed": seed, "streams": 6 if tier == "quick" else 40}
        res = native_replay({"call": "c04_sweep", "args": args}, timeout=3000)
        r = Result("C04.cut_sweep", "refuted" if res.get("violates") else ("proved" if "error" not in res else "error"), str(res.get("detail") or res.get("error") or "")[:300], paths=res.get("cases", 0))
        r.native, r.confirmed, r.request, r.witness = res, bool(res.get("violates")), {"call": "c04_sweep", "args": args}, res.get("witness")
        return r

    pack.add(Obligation("C04.cut_sweep", run_sweep, kind="bounded", note="native run on the real code: generated streams (raw and gzip) cut at EVERY byte offset, and every index of a failing / short write on the writer's file object; "
                        "reading must yield exactly the records whose frames are complete, then end or raise; bound: 6 (quick) / 40 (thorough) streams of up to 6 records", functions=FU))
    pack.loop_modes = {"RecordStreamReader.__iter__ while-loop": "invariant: one arbitrary iteration from an arbitrary registry (symbolic dictionary) and arbitrary following bytes, cut at the loop head",
                       "EventHandler.__call__ / descriptor loops": "unrolled over the concrete handler list"}
    pack.assumptions += ["msgpack tree model + prefix-freeness (no proper prefix of an encoding decodes)", "file contract: write appends all or raises; read returns fewer bytes only at end of file",
                         "gzip and the other codecs are outside the deductive part: a truncated compressed file is covered by the bounded native sweep only"]
    pack.not_covered = ["short writes of raw unbuffered files (outside the file contract)", "compressed streams: only in the bounded native sweep", "records larger than 4 GiB (struct.error on write)"]
    return pack

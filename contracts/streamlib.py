"""Shared contract-level helpers for the record-stream properties (C01-C04): frames, abstract files, observations of records."""
import z3

from pyvc.errors import LoopCut
from pyvc.models.files import AbsFile, Rest
from pyvc.models.mp import ExtType, MPBytes, MPTrunc
from pyvc.models.structm import be32

from .common import *  # noqa

# the published format (flow.record stream): every frame is a 4-byte big-endian length followed by one msgpack value;
# the first frame holds the msgpack bin8 value b"RECORDSTREAM\n"
MAGIC = b"RECORDSTREAM\n"
HEADER_FRAME = b"\x00\x00\x00\x0f" + b"\xc4\x0d" + MAGIC
EXT = 14
SUB = {"record": 1, "descriptor": 2, "datetime": 0x10, "varint": 0x11, "grouped": 0x12}


def mods():
    it, L = engine()
    return it, L, L.import_module("flow.record.base"), L.import_module("flow.record.packer"), L.import_module("flow.record.stream")


def length_prefix(it, blob):
    """The 4-byte big-endian length prefix of the published format for a packed blob (concrete or abstract)."""
    if isinstance(blob.length, int):
        return blob.length.to_bytes(4, "big")
    it.assume(z3.And(blob.length >= 0, blob.length < 2**32))
    return SBytes(be32(blob.length), length=4)


def pack_with_fresh_packer(it, pk, obj):
    p = it.call(pk.g["RecordPacker"], [], {})
    return it.call(it.getattr_(p, "pack"), [obj], {})


def frame_of(it, pk, obj):
    blob = pack_with_fresh_packer(it, pk, obj)
    return [length_prefix(it, blob), blob]


def sym_tail(it, name="tail"):
    """Arbitrary bytes that follow (contents and length unconstrained)."""
    n = z3.Int(f"{name}_len")
    it.assume(n >= 0)
    return SBytes(z3.Const(name, PyBytes), length=n)


def reader_at_loop_head(it, st, segments, registry=None):
    """A RecordStreamReader built by its real constructor over header ++ segments; optionally its registry replaced."""
    fp = AbsFile(it, [HEADER_FRAME] + list(segments))
    rd = it.call(st.g["RecordStreamReader"], [fp], {})
    if registry is not None:
        rd.attrs["packer"].attrs["descriptors"] = registry
    return fp, rd


def drain(it, gen, limit=50):
    """Consume a generator: (yielded list, how it ended) where the end is 'stop', 'cut' (loop cut: back at the loop head) or ('raise', class name, exc)."""
    out = []
    try:
        for o in it.iterate(gen):
            out.append(o)
            if len(out) > limit:
                raise Unsupported("generator did not end")
        return out, "stop"
    except LoopCut:
        return out, "cut"
    except PyRaise as e:
        out = list(getattr(e, "partial_yield", out))
        return out, ("raise", e.cls_name, e)


def slot_terms(it, rec):
    """{slot: z3 term or python value} of a record heap object (only the kinds the stream obligations use)."""
    out = {}
    for k, v in rec.attrs.items():
        zi = it.zint(v) if not isinstance(it.unbase(v), (str, SStr)) and not isinstance(v, (bool,)) else None
        zs = it.zstr(v) if isinstance(it.unbase(v), (str, SStr)) else None
        out[k] = zi if zi is not None else zs if zs is not None else v
    return out


def same_record(it, a, b, fields):
    """z3 Bool / python bool: records a and b have the same class name of every field value and equal values on `fields`; plus a complaint."""
    if not (isinstance(a, PObj) and isinstance(b, PObj)):
        return False, f"not records: {a!r} {b!r}"
    conj = []
    for f in fields:
        va, vb = a.attrs.get(f, PClass.MISSING), b.attrs.get(f, PClass.MISSING)
        if va is PClass.MISSING or vb is PClass.MISSING:
            return False, f"field {f} missing"
        if it.type_name(va) != it.type_name(vb):
            return False, f"field {f}: {it.type_name(va)} became {it.type_name(vb)}"
        ua, ub = it.unbase(va), it.unbase(vb)
        if isinstance(ua, (int, SInt)) and not isinstance(ua, bool) and isinstance(ub, (int, SInt)):
            conj.append(it.zint(ua) == it.zint(ub))
        elif isinstance(ua, (str, SStr)) and isinstance(ub, (str, SStr)):
            conj.append(it.zstr(ua) == it.zstr(ub))
        elif ua is None or ub is None:
            if ua is not ub:
                return False, f"field {f}: {ua!r} became {ub!r}"
        elif it.concrete(ua) and it.concrete(ub):
            if ua != ub and not (ua != ua and ub != ub):
                return False, f"field {f}: {ua!r} became {ub!r}"
        else:
            r = it.compare("Eq", va, vb)
            if isinstance(r, SBool):
                conj.append(r.t)
            elif r is not True:
                return False, f"field {f}: {va!r} became {vb!r}"
    return (z3.And(*conj) if conj else True), ""


# ---- msgpack trees against the published format (spec/wire_spec.py) ------------------------------------------------------------------
import importlib.util as _ilu
import os as _os

_sp = _ilu.spec_from_file_location("wire_spec", _os.path.join(_os.path.dirname(_os.path.dirname(_os.path.abspath(__file__))), "spec", "wire_spec.py"))
W = _ilu.module_from_spec(_sp)
_sp.loader.exec_module(W)


def blob(tree):
    """A nested packed blob of the spec (never adds path assumptions: used for expected values only)."""
    return MPBytes(tree)


class BigMag:
    """Spec leaf: a msgpack bin holding the big-endian magnitude of integer term `a` (any length that holds it: leading zero bytes decode alike)."""

    def __init__(self, a):
        self.a = a


def leaf_eq(it, a, b):
    """(z3 Bool | bool, complaint) for two msgpack leaves: same msgpack type and same content."""
    if isinstance(b, BigMag):
        from pyvc.models.ints import from_bytes_big, _axioms

        _axioms()
        ua = it.unbase(a)
        if isinstance(ua, SBytes):
            return from_bytes_big(ua.t) == b.a, "the big-endian magnitude bytes do not decode to the integer's magnitude"
        if isinstance(ua, (bytes, bytearray)):
            return z3.IntVal(int.from_bytes(ua, "big")) == b.a, "magnitude bytes"
        return False, f"msgpack {type(ua).__name__} where the format has bin (magnitude bytes)"
    def kind(v):
        v = it.unbase(v)
        if v is None:
            return "nil"
        if isinstance(v, (bool, SBool)):
            return "bool"
        if isinstance(v, (int, SInt)):
            return "int"
        if isinstance(v, float):
            return "float"
        if isinstance(v, (str, SStr)) or type(v).__name__ in ("ISOText", "IPText"):
            return "str"
        if isinstance(v, (bytes, bytearray, SBytes)):
            return "bin"
        if isinstance(v, MPBytes):
            return "bin"
        return type(v).__name__

    ka, kb = kind(a), kind(b)
    if ka != kb:
        return False, f"msgpack type {ka} where the format has {kb}"
    a, b = it.unbase(a), it.unbase(b)
    if ka == "nil":
        return True, ""
    if ka == "bool":
        return it.zbool(a) == it.zbool(b), "boolean differs"
    if ka == "int":
        return it.zint(a) == it.zint(b), "integer differs"
    if ka == "str":
        if type(a).__name__ == "IPText" or type(b).__name__ == "IPText":
            from pyvc.models.ip import same as _same_ip

            if type(a) is not type(b):
                return False, "address text differs"
            return _same_ip(a.ip, b.ip), "address text differs"
        if type(a).__name__ == "ISOText" or type(b).__name__ == "ISOText":
            if type(a) is not type(b) or a.sep != b.sep:
                return False, "ISO text differs"
            return a.dt.same_as(b.dt), "ISO timestamp text differs"
        return it.zstr(a) == it.zstr(b), "text differs"
    if ka == "float":
        return (a == b or (a != a and b != b)), "float differs"
    if isinstance(a, MPBytes) or isinstance(b, MPBytes):
        if isinstance(a, MPBytes) and isinstance(b, MPBytes):
            return tree_eq(it, a.tree, b.tree)
        ca = a.concrete if isinstance(a, MPBytes) else a
        cb = b.concrete if isinstance(b, MPBytes) else b
        return (ca is not None and ca == cb), "bytes differ"
    if isinstance(a, (bytes, bytearray)) and isinstance(b, (bytes, bytearray)):
        return bytes(a) == bytes(b), f"bytes differ: {bytes(a)[:20]!r} vs {bytes(b)[:20]!r}"
    if isinstance(a, SBytes) and isinstance(b, SBytes):
        return a.t == b.t, "byte string differs"
    return False, f"bytes of different representation: {a!r} vs {b!r}"


def tree_eq(it, a, b, where="value"):
    """(z3 Bool | bool, complaint): msgpack tree `a` (produced by the code) equals tree `b` (the published format)."""
    if a[0] != b[0]:
        return False, f"{where}: msgpack {a[0]} where the format has {b[0]}"
    if a[0] == "leaf":
        g, why = leaf_eq(it, a[1], b[1])
        return g, f"{where}: {why}"
    if a[0] == "arr":
        if len(a[1]) != len(b[1]):
            return False, f"{where}: array of {len(a[1])} where the format has {len(b[1])}"
        conj = []
        for i, (x, y) in enumerate(zip(a[1], b[1])):
            g, why = tree_eq(it, x, y, f"{where}[{i}]")
            if g is False:
                return False, why
            if g is not True:
                conj.append(g)
        return (z3.And(*conj) if conj else True), f"{where}: an element differs"
    if a[0] == "map":
        if len(a[1]) != len(b[1]):
            return False, f"{where}: map size"
        conj = []
        for i, ((ka, va), (kb, vb)) in enumerate(zip(a[1], b[1])):
            for x, y in ((ka, kb), (va, vb)):
                g, why = tree_eq(it, x, y, f"{where}{{{i}}}")
                if g is False:
                    return False, why
                if g is not True:
                    conj.append(g)
        return (z3.And(*conj) if conj else True), f"{where}: a map entry differs"
    if a[0] == "ext":
        if a[1] != b[1]:
            return False, f"{where}: extension type {a[1]} where the format has {b[1]}"
        pa, pb = a[2], b[2]
        if isinstance(pa, MPBytes) and isinstance(pb, MPBytes):
            return tree_eq(it, pa.tree, pb.tree, where + ".ext")
        return leaf_eq(it, pa, pb)
    return False, f"{where}: unknown node"


# ---- deep observation of values (identity of kind, not only equality class) ---------------------------------------------------------
def deep_obs(it, v, depth=0):
    """Structural observation: class names at every level, flavour of paths, packed members of composite field types; symbolic leaves stay terms."""
    if depth > 12:
        return ("...",)
    if isinstance(v, PObj):
        if v.cls.find("_pack") is not None and v.cls.find("__slots__") is not None and isinstance(v.cls.find("__slots__"), tuple) and "_generated" in v.cls.find("__slots__"):
            return ("record", it.getattr_(it.getattr_(v, "_desc"), "name"), tuple(tuple(f) for f in it.call(it.getattr_(it.getattr_(v, "_desc"), "get_field_tuples"), [], {})),
                    tuple((k, deep_obs(it, v.attrs.get(k), depth + 1)) for k in v.cls.find("__slots__")))
        if v.cls.name == "GroupedRecord":
            return ("grouped", it.unbase(v.attrs.get("name")), tuple(deep_obs(it, r, depth + 1) for r in v.attrs.get("records", [])))
        if v.cls.name == "digest":
            return ("obj", "digest", tuple((a, deep_obs(it, it.getattr_(v, a), depth + 1)) for a in ("md5", "sha1", "sha256")))
        if v.has_base:
            b = v.base
            if isinstance(b, bool):
                b = int(b)  # an int subclass instance holds an int value whatever it was built from
            return ("obj", v.cls.name, deep_obs(it, b, depth + 1))
        return ("obj", v.cls.name, tuple((k, deep_obs(it, a, depth + 1)) for k, a in sorted(v.attrs.items()) if not k.startswith("__")))
    if isinstance(v, (SInt, SStr, SBool, SBytes)):
        return ("sym", type(v).__name__, v.t)
    if type(v).__name__ == "SymIP":
        return ("ipaddress", f"IPv{v.version}", ("sym", "SInt", v.value.t))
    if type(v).__name__ == "SymDT":
        return ("datetime", tuple(deep_obs(it, c, depth + 1) for c in v.comps), None if v.utcoffset() is None else v.utcoffset().total_seconds(), v.fold)
    if isinstance(v, Opaque):
        return ("opaque", v.t)
    if isinstance(v, (list, tuple)):
        return (type(v).__name__, tuple(deep_obs(it, e, depth + 1) for e in v))
    if isinstance(v, dict):
        return ("dict", tuple((deep_obs(it, k, depth + 1), deep_obs(it, e, depth + 1)) for k, e in v.items()))
    if isinstance(v, float):
        import struct as _struct

        return ("float", _struct.pack(">d", v).hex())  # the bit pattern (float.hex() says 'nan' for every NaN)
    import datetime as _dtm
    if isinstance(v, _dtm.datetime):
        return ("datetime", v.isoformat(), None if v.utcoffset() is None else v.utcoffset().total_seconds(), v.fold)
    return (type(v).__name__, repr(v))


def obs_eq(a, b, where="value"):
    """(z3 Bool | bool, complaint) for two observations."""
    if isinstance(a, tuple) and isinstance(b, tuple) and a and b and a[0] == "sym" and b[0] == "sym":
        if a[1] != b[1]:
            return False, f"{where}: {a[1]} became {b[1]}"
        return a[2] == b[2], f"{where}: value differs"
    if isinstance(a, tuple) and isinstance(b, tuple) and a and b and (a[0] == "sym") != (b[0] == "sym"):
        s_, c_ = (a, b) if a[0] == "sym" else (b, a)
        kinds = {"SInt": "int", "SStr": "str", "SBool": "bool"}
        if kinds.get(s_[1]) == c_[0]:
            import ast as _ast
            val = _ast.literal_eval(c_[1])
            return s_[2] == (z3.IntVal(val) if s_[1] == "SInt" else z3.StringVal(val) if s_[1] == "SStr" else z3.BoolVal(val)), f"{where}: value differs"
        return False, f"{where}: {a[:2]!r} became {b[:2]!r}"
    if isinstance(a, tuple) and isinstance(b, tuple):
        if len(a) != len(b):
            return False, f"{where}: {a!r:.120} became {b!r:.120}"
        conj = []
        for i, (x, y) in enumerate(zip(a, b)):
            g, why = obs_eq(x, y, where if not (isinstance(x, tuple)) else where)
            if g is False:
                return False, why
            if g is not True:
                conj.append(g)
        return (z3.And(*conj) if conj else True), f"{where}: a component differs"
    if z3.is_expr(a) or z3.is_expr(b):
        return (a == b) if (z3.is_expr(a) and z3.is_expr(b)) else False, f"{where}: symbolic / concrete mismatch"
    return (a == b), f"{where}: {a!r:.80} became {b!r:.80}"

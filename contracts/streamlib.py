"""Shared contract-level helpers for the record-stream properties (C01-C04): frames, abstract files, observations of records."""
import z3

from pyvc.errors import LoopCut
from pyvc.models.files import AbsFile, Rest
from pyvc.models.mp import ExtType, MPBytes, MPTrunc
from pyvc.models.structm import be32

from .common import *  # noqa

# the published format (flow.record stream): every frame is a 4-byte big-endian length followed by one msgpack value;
# the first frame holds the msgpack bin8 value b"RECORDSTREAM\n"
MAGIC = b"RECORDSTREAM\n"
HEADER_FRAME = b"\x00\x00\x00\x0f" + b"\xc4\x0d" + MAGIC
EXT = 14
SUB = {"record": 1, "descriptor": 2, "datetime": 0x10, "varint": 0x11, "grouped": 0x12}


def mods():
    it, L = engine()
    return it, L, L.import_module("flow.record.base"), L.import_module("flow.record.packer"), L.import_module("flow.record.stream")


def length_prefix(it, blob):
    """The 4-byte big-endian length prefix of the published format for a packed blob (concrete or abstract)."""
    if isinstance(blob.length, int):
        return blob.length.to_bytes(4, "big")
    it.assume(z3.And(blob.length >= 0, blob.length < 2**32))
    return SBytes(be32(blob.length), length=4)


def pack_with_fresh_packer(it, pk, obj):
    p = it.call(pk.g["RecordPacker"], [], {})
    return it.call(it.getattr_(p, "pack"), [obj], {})


def frame_of(it, pk, obj):
    blob = pack_with_fresh_packer(it, pk, obj)
    return [length_prefix(it, blob), blob]


def sym_tail(it, name="tail"):
    """Arbitrary bytes that follow (contents and length unconstrained)."""
    n = z3.Int(f"{name}_len")
    it.assume(n >= 0)
    return SBytes(z3.Const(name, PyBytes), length=n)


def reader_at_loop_head(it, st, segments, registry=None):
    """A RecordStreamReader built by its real constructor over header ++ segments; optionally its registry replaced."""
    fp = AbsFile(it, [HEADER_FRAME] + list(segments))
    rd = it.call(st.g["RecordStreamReader"], [fp], {})
    if registry is not None:
        rd.attrs["packer"].attrs["descriptors"] = registry
    return fp, rd


def drain(it, gen, limit=50):
    """Consume a generator: (yielded list, how it ended) where the end is 'stop', 'cut' (loop cut: back at the loop head) or ('raise', class name, exc)."""
    out = []
    try:
        for o in it.iterate(gen):
            out.append(o)
            if len(out) > limit:
                raise Unsupported("generator did not end")
        return out, "stop"
    except LoopCut:
        return out, "cut"
    except PyRaise as e:
        out = list(getattr(e, "partial_yield", out))
        return out, ("raise", e.cls_name, e)


def slot_terms(it, rec):
    """{slot: z3 term or python value} of a record heap object (only the kinds the stream obligations use)."""
    out = {}
    for k, v in rec.attrs.items():
        zi = it.zint(v) if not isinstance(it.unbase(v), (str, SStr)) and not isinstance(v, (bool,)) else None
        zs = it.zstr(v) if isinstance(it.unbase(v), (str, SStr)) else None
        out[k] = zi if zi is not None else zs if zs is not None else v
    return out


def same_record(it, a, b, fields):
    """z3 Bool / python bool: records a and b have the same class name of every field value and equal values on `fields`; plus a complaint."""
    if not (isinstance(a, PObj) and isinstance(b, PObj)):
        return False, f"not records: {a!r} {b!r}"
    conj = []
    for f in fields:
        va, vb = a.attrs.get(f, PClass.MISSING), b.attrs.get(f, PClass.MISSING)
        if va is PClass.MISSING or vb is PClass.MISSING:
            return False, f"field {f} missing"
        if it.type_name(va) != it.type_name(vb):
            return False, f"field {f}: {it.type_name(va)} became {it.type_name(vb)}"
        ua, ub = it.unbase(va), it.unbase(vb)
        if isinstance(ua, (int, SInt)) and not isinstance(ua, bool) and isinstance(ub, (int, SInt)):
            conj.append(it.zint(ua) == it.zint(ub))
        elif isinstance(ua, (str, SStr)) and isinstance(ub, (str, SStr)):
            conj.append(it.zstr(ua) == it.zstr(ub))
        elif ua is None or ub is None:
            if ua is not ub:
                return False, f"field {f}: {ua!r} became {ub!r}"
        elif it.concrete(ua) and it.concrete(ub):
            if ua != ub and not (ua != ua and ub != ub):
                return False, f"field {f}: {ua!r} became {ub!r}"
        else:
            r = it.compare("Eq", va, vb)
            if isinstance(r, SBool):
                conj.append(r.t)
            elif r is not True:
                return False, f"field {f}: {va!r} became {vb!r}"
    return (z3.And(*conj) if conj else True), ""

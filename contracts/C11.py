"""C11 - compression and container format are detected transparently.

Contracts on the real open_stream / open_path / open_path_or_stream / find_adapter_for_stream / RecordAdapter (base.py) with the codecs replaced by their assumed
contract (a compressed file starts with the codec's published magic; the codec's reader returns what its writer was given and refuses anything else):

  magic        the five magic constants are the published leading bytes; no one is a prefix of another (branch order is irrelevant)
  open_stream  for leading bytes of codec X the X reader wraps the stream, anything else is returned as it is, nothing is consumed by the peek; write mode is untouched
  open_path    writing: the extension selects the codec (.gz .bz2 .lz4 .zstd .zst, none otherwise) and the file starts with that codec's magic;
               reading: the extension's codec, otherwise the leading bytes decide
  containers   find_adapter_for_stream: Avro magic -> avro, record-stream magic inside the first 19 bytes -> stream, else none;
               RecordAdapter: URL scheme / extension -> adapter for paths, sniffing for file objects and standard input
  matrix       every codec x {record stream, Avro} x {path with the extension, path whose name hides the codec, open binary file object, standard input}: the same
               records come back (symbolic values)
  refusal      input that is no stream, no Avro container and no codec is refused with RecordAdapterNotFound / a format error, never read as records
"""
import types

import z3

from pyvc.models.ext import CODEC_MAGIC, AvroHeader, MagicSeg

from .streamlib import *  # noqa
from pyvc.models.files import AbsRawFile  # noqa

CODECS = {"none": "", "gzip": ".gz", "bz2": ".bz2", "lz4": ".lz4", "zstd": ".zstd", "zstd(.zst)": ".zst"}


def build(tier="quick", seed=0):
    it, L, base, pk, st = mods()
    pack = new_pack("C11", "Compression and container format are detected transparently")
    RD = base.g["RecordDescriptor"]
    FU = ("flow.record.base:open_stream", "flow.record.base:open_path", "flow.record.base:open_path_or_stream", "flow.record.base:find_adapter_for_stream", "flow.record.base:RecordAdapter", "flow.record.base:RecordReader",
          "flow.record.base:RecordWriter", "flow.record.adapter.stream:StreamWriter.__init__", "flow.record.adapter.stream:StreamReader.__init__", "flow.record.adapter.avro:AvroWriter.__init__", "flow.record.adapter.avro:AvroReader.__init__",
          "flow.record.utils:get_stdin", "flow.record.stream:RecordStreamReader.readheader")
    x, sv = z3.Int("x"), z3.String("s")

    def fresh():
        it.vfs, it.vfs_auto, it.vfs_events, it.vfs_dirs = {}, True, [], set()

    # ------------------------------------------------------------------ constants
    def th_magic():
        g = base.g
        return {"GZIP_MAGIC": g["GZIP_MAGIC"], "BZ2_MAGIC": g["BZ2_MAGIC"], "LZ4_MAGIC": g["LZ4_MAGIC"], "ZSTD_MAGIC": g["ZSTD_MAGIC"], "AVRO_MAGIC": g["AVRO_MAGIC"], "RECORDSTREAM_MAGIC": g["RECORDSTREAM_MAGIC"], "DEPTH": g["RECORDSTREAM_MAGIC_DEPTH"]}

    def judge_magic(p):
        v = p.value
        want = {"GZIP_MAGIC": b"\x1f\x8b", "BZ2_MAGIC": b"BZh", "LZ4_MAGIC": b"\x04\x22\x4d\x18", "ZSTD_MAGIC": b"\x28\xb5\x2f\xfd", "AVRO_MAGIC": b"Obj", "RECORDSTREAM_MAGIC": b"RECORDSTREAM\n", "DEPTH": 19}
        if v != want:
            return False, f"magic constants {v!r}"
        ms = [v[k] for k in ("GZIP_MAGIC", "BZ2_MAGIC", "LZ4_MAGIC", "ZSTD_MAGIC", "AVRO_MAGIC")] + [HEADER_FRAME]
        return not any(a != b and (a.startswith(b) or b.startswith(a)) for a in ms for b in ms), "one magic is a prefix of another"

    pack.add(Obligation("C11.magic", lambda tier: prove_paths("C11.magic", th_magic, judge_magic), replay=lambda w: {"call": "c11_matrix", "args": {"codec": "gzip", "container": "stream"}}, functions=FU, mode="structural"))

    # ------------------------------------------------------------------ open_stream
    def th_open_stream(kind):
        def th():
            fresh()
            tail = sym_tail(it)
            if kind in CODEC_MAGIC:
                fp = AbsFile(it, [], mode="rb")
                fp.segs = [(MagicSeg(kind), len(CODEC_MAGIC[kind])), (b"inner", 5), (tail, tail.length)]
            elif kind == "stream":
                fp = AbsFile(it, [HEADER_FRAME, tail], mode="rb")
            else:
                fp = AbsFile(it, [kind] if kind else [], mode="rb")  # (short inputs: nothing follows)
            r = it.call(base.g["open_stream"], [fp, "rb"], {})
            wfp = AbsFile(it, [], mode="wb")
            w = it.call(base.g["open_stream"], [wfp, "wb"], {})
            untouched = r is fp or (hasattr(r, "remaining") and r.remaining() == fp.content())  # the same stream, or a view that reads the same bytes
            return untouched, getattr(r, "outer", None) is fp, r.remaining()[:1], fp.i if r is fp else 0, w is wfp
        return th

    for kind in list(CODEC_MAGIC) + ["stream", b"plain text that is nothing", b"", b"\x1f", b"BZ", b"Obj\x01"]:
        name = f"C11.open_stream[{kind if isinstance(kind, str) else repr(kind)}]"

        def judge(p, kind=kind):
            same, wrapped, first, pos, wsame = p.value
            if not wsame:
                return False, "write mode: the stream must be returned untouched"
            if pos != 0:
                return False, "peeking consumed input"
            if kind in CODEC_MAGIC:
                return (wrapped and first == [b"inner"]), f"leading bytes of {kind}: the stream was not wrapped in the {kind} reader"
            return same, "a stream without a codec magic is handed on as it is (the same bytes are read from what open_stream returns)"

        pack.add(Obligation(name, lambda tier, name=name, kind=kind, judge=judge: prove_paths(name, th_open_stream(kind), judge, lambda m_, p: {}), replay=lambda w, kind=kind: {"call": "c11_matrix", "args": {"codec": kind if kind in CODEC_MAGIC else "none", "container": "stream"}},
                            functions=FU, mode="each codec magic, the stream magic, non-magic leading bytes incl. proper prefixes of a magic; arbitrary following bytes"))

    # ------------------------------------------------------------------ matrix: codec x container x way of naming the source
    def th_matrix(codec, ext, container):
        def th():
            fresh()
            D = it.call(RD, ["c11/rec", [("varint", "n"), ("string", "s")]], {})
            it.assume(z3.And(x >= -(2**63), x < 2**63))
            recs = [it.call(D, [], {"n": SInt(x), "s": SStr(sv)}), it.call(D, [], {"n": 2, "s": "b"})]
            scheme = "avro://" if container == "avro" else ""
            cext = ".avro" if container == "avro" else ".records"
            path = f"/abs/data{cext}{ext}"
            w = it.call(base.g["RecordWriter"], [scheme + path], {})
            for r in recs:
                it.call(it.getattr_(w, "write"), [r], {})
            it.call(it.getattr_(w, "flush"), [], {})
            it.call(it.getattr_(w, "close"), [], {})
            content = it.vfs[path].content()
            first = content[0] if content else None
            results = {}

            def read(label, **kw):
                try:
                    rd = it.call(base.g["RecordReader"], kw.pop("args", []), kw)
                    results[label] = ([(o.attrs.get("n"), o.attrs.get("s")) for o in it.iterate(rd)], rd.cls.name)
                except PyRaise as e:
                    results[label] = (f"raised {e.cls_name}: {e}", None)

            read("path with extension", args=[scheme + path])
            if container == "stream":  # (for paths the container follows the extension / scheme, so a neutral name means the default container)
                it.vfs["/abs/neutral.bin"] = AbsFile(it, content, mode="rb")
                read("neutral path", args=["/abs/neutral.bin"])
            read("file object", fileobj=AbsFile(it, content, mode="rb"))
            # a seekable file object without peek() (BytesIO, unbuffered file) that is positioned on the first byte of the data, behind other data
            read("file object without peek(), positioned behind other data", fileobj=AbsRawFile(it, [b"<16 other bytes>"] + list(content), start=1, mode="rb"))
            read("file object without peek()", fileobj=AbsRawFile(it, content, mode="rb"))
            stdin = AbsFile(it, content, mode="rb")
            L.module_models["sys"].stdin = types.SimpleNamespace(buffer=stdin)
            try:
                read("standard input", args=["-"])
            finally:
                del L.module_models["sys"].stdin
            # standard input named through an explicit adapter URL: the codec must still be recognised from the leading bytes
            L.module_models["sys"].stdin = types.SimpleNamespace(buffer=AbsFile(it, content, mode="rb"))
            try:
                read("standard input via adapter URL", args=[("avro" if container == "avro" else "stream") + "://-"])
            finally:
                del L.module_models["sys"].stdin
            return first, results, recs
        return th

    def judge_matrix(codec, container):
        def judge(p):
            first, results, recs = p.value
            ckey = codec.split("(")[0]
            if ckey == "none":
                if isinstance(first, MagicSeg):
                    return False, f"a path without a codec extension was compressed with {first.codec}"
            elif not (isinstance(first, MagicSeg) and first.codec == ckey):
                return False, f"the written file starts with {first!r}, not with the {ckey} magic its extension promises"
            conj = []
            for label, (got, cls) in results.items():
                if isinstance(got, str):
                    return False, f"{label}: {got}"
                want_cls = "AvroReader" if container == "avro" else "StreamReader"
                if cls != want_cls:
                    return False, f"{label}: read with {cls}, expected {want_cls}"
                if len(got) != 2 or it.unbase(got[1][0]) != 2 or it.unbase(got[1][1]) != "b":
                    return False, f"{label}: records read back {got!r:.200}"
                conj += [it.zint(got[0][0]) == x, it.zstr(got[0][1]) == sv]
            return z3.And(*conj), "values differ"
        return judge

    for codec, ext in CODECS.items():
        for container in ("stream", "avro"):
            name = f"C11.matrix[{codec}, {container}]"
            pack.add(Obligation(name, lambda tier, name=name, codec=codec, ext=ext, container=container: prove_paths(name, th_matrix(codec, ext, container), judge_matrix(codec, container), lambda m_, p: {"x": model_value(m_, x), "s": model_value(m_, sv)}, allow_raise=("UnicodeEncodeError", "error")),
                                replay=lambda w, codec=codec, container=container: {"call": "c11_matrix", "args": {"codec": codec.split("(")[0], "container": container, "ext": CODECS[codec]}}, functions=FU,
                                mode="exhaustive matrix codec x container x {path with extension, neutral path, file object, standard input, standard input via an adapter URL}; symbolic record values"))
    pack.case_analyses.append("matrix: codecs none / gzip / bz2 / lz4 / zstd (.zstd and .zst) x containers record stream / Avro x four ways of naming the source")

    # ------------------------------------------------------------------ several compressed streams in progress at the same time do not disturb each other
    def th_concurrent(codec, ext):
        def th():
            fresh()
            D = it.call(RD, ["c11/rec", [("varint", "n"), ("string", "s")]], {})
            ws = [it.call(base.g["RecordWriter"], [f"/abs/c{i}.records{ext}"], {}) for i in range(2)]
            for k in range(3):
                for i, w in enumerate(ws):  # interleaved writes
                    it.call(it.getattr_(w, "write"), [it.call(D, [], {"n": 10 * i + k, "s": "v"})], {})
            for w in ws:
                it.call(it.getattr_(w, "flush"), [], {})
                it.call(it.getattr_(w, "close"), [], {})
            rds = [it.call(base.g["RecordReader"], [f"/abs/c{i}.records{ext}"], {}) for i in range(2)]  # two readers open side by side
            its = [iter(it.iterate(r)) for r in rds]
            got = [[], []]
            for k in range(3):
                for i in range(2):
                    got[i].append(it.unbase(next(its[i]).attrs["n"]))
            return got, [e for e in it.vfs_events if e[0].endswith("context-shared")]
        return th

    for codec, ext in CODECS.items():
        if codec == "none":
            continue
        name = f"C11.concurrent[{codec}: two writers, then two readers, side by side]"
        pack.add(Obligation(name, lambda tier, name=name, codec=codec, ext=ext: prove_paths(name, th_concurrent(codec, ext), lambda p: (p.value == ([[0, 1, 2], [10, 11, 12]], []), f"two {codec} streams in progress at once: read back {p.value[0]}, shared codec state: {p.value[1]}"), lambda m_, p: {}, allow_raise=None),
                            replay=lambda w, codec=codec, ext=ext: {"call": "c11_concurrent", "args": {"ext": ext}}, functions=FU, mode="two streams of one codec open at the same time, interleaved"))

    # ------------------------------------------------------------------ clobber=False (refuse to overwrite) is about existing files only: the codec still follows the extension
    for codec, ext in CODECS.items():
        name = f"C11.clobber[{codec}: a new file written with clobber=False]"

        def th(codec=codec, ext=ext):
            fresh()
            D = it.call(RD, ["c11/rec", [("varint", "n")]], {})
            path = f"/abs/new.records{ext}"
            w = it.call(base.g["RecordWriter"], [path], {"clobber": False})
            it.call(it.getattr_(w, "write"), [it.call(D, [], {"n": 5})], {})
            it.call(it.getattr_(w, "close"), [], {})
            first = it.vfs[path].content()[:1] if path in it.vfs else None
            try:
                back = [it.unbase(o.attrs["n"]) for o in it.iterate(it.call(base.g["RecordReader"], [path], {}))]
            except PyRaise as e:
                back = f"raised {e.cls_name}"
            try:
                it.call(base.g["RecordWriter"], [path], {"clobber": False})
                second = "opened"
            except PyRaise as e:
                second = "refused"
            return first, back, second

        def judge(p, codec=codec):
            first, back, second = p.value
            ckey = codec.split("(")[0]
            magic_ok = (not (first and isinstance(first[0], MagicSeg))) if ckey == "none" else bool(first and isinstance(first[0], MagicSeg) and first[0].codec == ckey)
            return magic_ok and back == [5] and second == "refused", f"clobber=False: the new file starts with {first!r}, reads back as {back!r}; writing onto the existing file is {second}"

        pack.add(Obligation(name, lambda tier, name=name, th=th, judge=judge: prove_paths(name, th, judge, lambda m_, p: {}, allow_raise=("UnicodeEncodeError", "error")),
                            replay=lambda w, codec=codec, ext=ext: {"call": "c11_clobber", "args": {"codec": codec.split("(")[0], "ext": ext}}, functions=FU, mode="every codec extension"))

    # ------------------------------------------------------------------ a '#' is a legal character of a file name
    def th_hash_name():
        fresh()
        D = it.call(RD, ["c11/rec", [("varint", "n")]], {})
        path = "/abs/evidence#1.records.gz"
        w = it.call(base.g["RecordWriter"], [path], {})
        it.call(it.getattr_(w, "write"), [it.call(D, [], {"n": 5})], {})
        it.call(it.getattr_(w, "close"), [], {})
        files = sorted(it.vfs)
        first = it.vfs[path].content()[:1] if path in it.vfs else None
        try:
            back = [it.unbase(o.attrs["n"]) for o in it.iterate(it.call(base.g["RecordReader"], [path], {}))]
        except PyRaise as e:
            back = f"raised {e.cls_name}"
        return files, first, back

    pack.add(Obligation("C11.path[a '#' in the file name]", lambda tier: prove_paths("C11.path[a '#' in the file name]", th_hash_name,
                        lambda p: (p.value[0] == ["/abs/evidence#1.records.gz"] and bool(p.value[1]) and isinstance(p.value[1][0], MagicSeg) and p.value[1][0].codec == "gzip" and p.value[2] == [5], f"files written {p.value[0]}, leading segment {p.value[1]!r}, read back {p.value[2]!r}")),
                        replay=lambda w: {"call": "c11_hash_name", "args": {}}, functions=FU, mode="representative name"))

    # a RAW stream under the record stream reader (what open_path() hands out for .zst: the bare zstd reader; a pipe): read(n) may return fewer bytes than asked
    # for although more follow - at the member boundaries of a multi-frame file - and only an empty read is the end. Every record is read whatever the boundaries are.
    for cut_name, cut_at in (("inside a length prefix", 2), ("inside a frame body", 9), ("between two frames", 0), ("inside the header", -14)):
        name = f"C11.raw[the underlying stream returns short reads, boundary {cut_name}]"

        def th_raw(cut_at=cut_at):
            import struct as _struct

            D = it.call(RD, ["c11/rec", [("varint", "n")]], {})
            fp = AbsFile(it, mode="wb")
            w = it.call(st.g["RecordStreamWriter"], [fp], {})
            for k in (5, 6, 7):
                it.call(it.getattr_(w, "write"), [it.call(D, [], {"n": k})], {})
            segs = fp.content()
            data = b"".join(s_ if isinstance(s_, bytes) else s_.concrete for s_ in segs)
            first_record = len(b"".join(s_ if isinstance(s_, bytes) else s_.concrete for s_ in segs[:4]))  # header (2 writes) + descriptor frame (2 writes)
            cut = (19 + cut_at) if cut_at < 0 else first_record + cut_at
            raw = AbsFile(it, [data[:cut], data[cut:]])
            raw.short_reads = True
            rd = it.call(st.g["RecordStreamReader"], [raw], {})
            out, end = drain(it, it.iterate(rd))
            return [it.unbase(o.attrs["n"]) for o in out], end if isinstance(end, str) else end[:2]

        pack.add(Obligation(name, lambda tier, name=name, th_raw=th_raw: prove_paths(name, th_raw, lambda p: (p.value == ([5, 6, 7], "stop"), f"records read from a stream that hands out short reads: {p.value[0]}, ended {p.value[1]}; written 5, 6, 7")),
                            replay=lambda w, cut_name=cut_name: {"call": "c11_multiframe_zstd", "args": {}}, functions=FU + ("flow.record.stream:RecordStreamReader.read",), mode="concrete stream, member boundary at four kinds of position"))

    # '#' and ';' in front of a container extension: the container of a path follows its EXTENSION (what is written into <name>.avro is an Avro container,
    # what is read from it is read as one), whatever other characters the name holds
    for fname in ("evidence#1.avro", "exhibit;2.avro", "a#b;c.json", "plain.avro"):
        name = f"C11.path.container[{fname}]"

        def th_cont(fname=fname):
            fresh()
            D = it.call(RD, ["c11/rec", [("varint", "n")]], {})
            path = "/abs/" + fname
            w = it.call(base.g["RecordWriter"], [path], {})
            wcls = it.type_name(w)
            it.call(it.getattr_(w, "write"), [it.call(D, [], {"n": 5})], {})
            it.call(it.getattr_(w, "close"), [], {})
            files = sorted(it.vfs)
            try:
                rd = it.call(base.g["RecordReader"], [path], {})
                rcls = it.type_name(rd)
                back = [it.unbase(o.attrs["n"]) for o in it.iterate(rd)]
            except PyRaise as e:
                rcls, back = None, f"raised {e.cls_name}"
            return files, wcls, rcls, back

        want_w, want_r = ("AvroWriter", "AvroReader") if fname.endswith(".avro") else ("JsonfileWriter", "JsonfileReader")
        pack.add(Obligation(name, lambda tier, name=name, th_cont=th_cont, fname=fname, want_w=want_w, want_r=want_r: prove_paths(name, th_cont, lambda p: (p.value == (["/abs/" + fname], want_w, want_r, [5]), f"{fname}: files {p.value[0]}, written by {p.value[1]}, read by {p.value[2]}, read back {p.value[3]!r} (the extension asks for {want_w} / {want_r})")),
                            replay=lambda w, fname=fname: {"call": "c11_container_name", "args": {"fname": fname}}, functions=FU, mode="representative names"))

    # ------------------------------------------------------------------ adapter table for paths
    def th_adapter_table():
        out = {}
        for url, want in (("/abs/a.records", "StreamWriter"), ("/abs/a.json", "JsonfileWriter"), ("/abs/a.jsonl", "JsonfileWriter"), ("/abs/a.avro", "AvroWriter"), ("csvfile:///abs/a.bin", "CsvfileWriter"),
                          ("/abs/noext", "StreamWriter"), ("stream:///abs/a.json", "StreamWriter"), ("jsonfile:///abs/x.records", "JsonfileWriter"), ("text:///abs/a.txt", "TextWriter"), ("line:///abs/a.txt", "LineWriter"),
                          # the container follows THE extension of the name (the last one): a dotted part inside the name says nothing
                          ("/abs/users.csv.records", "StreamWriter"), ("/abs/web.json.records.gz", "StreamWriter"), ("/abs/dump.avro.records.zst", "StreamWriter"), ("/abs/x.records.json", "JsonfileWriter"), ("/abs/v1.jsonl.avro", "AvroWriter"),
                          ("/abs/dir.avro/plain.records", "StreamWriter")):
            fresh()
            w = it.call(base.g["RecordWriter"], [url], {})
            out[url] = (w.cls.name, want)
        return out

    pack.add(Obligation("C11.adapter_table", lambda tier: prove_paths("C11.adapter_table", th_adapter_table, lambda p: (all(a == b for a, b in p.value.values()), f"adapter chosen per URL: { {k: v for k, v in p.value.items() if v[0] != v[1]} }")),
                        replay=lambda w: {"call": "c11_adapters", "args": {}}, functions=FU, mode="finite table of URL schemes and extensions"))

    # ------------------------------------------------------------------ refusal
    JUNK = {"empty": b"", "html": b"<html><body>not records</body></html>", "zeros": b"\x00" * 64, "magic at offset 0 then junk": b"RECORDSTREAM\n" + b"\x01" * 40, "text mentioning the magic": b"see RECORDSTREAM\nin line 2 of this text file",
            "magic after 30 bytes": b"\x00" * 30 + HEADER_FRAME, "truncated header": HEADER_FRAME[:10], "prefix of the gzip magic": b"\x1f", "record text": b"<c11/rec n=1 s='a'>\n",
            "JSON lines": b'{"n": 1, "s": "a"}\n{"n": 2, "s": "b"}\n', "JSON lines of the JSON adapter": b'{"_type": "recorddescriptor", "_data": ["c11/rec", [["varint", "n"]]]}\n{"n": 1, "_type": "record", "_recorddescriptor": ["c11/rec", 1]}\n',
            "CSV text": b"n,s\r\n1,a\r\n"}
    for label, data in JUNK.items():
        name = f"C11.refuse[{label}]"

        def th(data=data):
            fresh()
            out = {}
            for how in ("file object", "neutral path", "standard input"):
                try:
                    if how == "file object":
                        rd = it.call(base.g["RecordReader"], [], {"fileobj": AbsFile(it, [data] if data else [], mode="rb")})
                    elif how == "neutral path":
                        it.vfs["/abs/junk.bin"] = AbsFile(it, [data] if data else [], mode="rb")
                        rd = it.call(base.g["RecordReader"], ["/abs/junk.bin"], {})
                    else:
                        L.module_models["sys"].stdin = types.SimpleNamespace(buffer=AbsFile(it, [data] if data else [], mode="rb"))
                        try:
                            rd = it.call(base.g["RecordReader"], ["-"], {})
                        finally:
                            del L.module_models["sys"].stdin
                    out[how] = ("opened as " + rd.cls.name, None)  # accepted as a record source: whatever follows is a misreading
                except PyRaise as e:
                    out[how] = ("raised", e.cls_name)
            return out

        pack.add(Obligation(name, lambda tier, name=name, th=th: prove_paths(name, th, lambda p: (all(v[0] == "raised" and v[1] in ("RecordAdapterNotFound", "OSError", "IOError", "EOFError", "ValueError") for v in p.value.values()), f"input that is neither a record stream nor Avro was not refused when it was opened: {p.value}")),
                            replay=lambda w, label=label: {"call": "c11_refuse", "args": {"label": label}}, functions=FU, mode="representative non-stream inputs x three ways of naming the source"))

    # ------------------------------------------------------------------ canary / conformance / bounded
    def run_canary(tier):
        return prove_paths("C11.canary", th_matrix("gzip", ".gz", "stream"), judge_matrix("bz2", "stream"), lambda m_, p: {}, allow_raise=("UnicodeEncodeError", "error"))  # judged as if .gz meant bz2

    pack.add(Obligation("C11.canary", run_canary, kind="canary"))

    def run_cross(tier):
        res = native_replay({"call": "c11_model_conformance", "args": {}})
        return Result("C11.cross", "proved" if res.get("ok") else "refuted", str(res.get("detail") or res.get("error") or "")[:300], paths=res.get("cases", 0))

    pack.add(Obligation("C11.cross", run_cross, kind="cross"))

    def run_sweep(tier):
        args = {"seed": seed, "n": 30 if tier == "quick" else 400}
        res = native_replay({"call": "c11_sweep", "args": args}, timeout=3000)
        r = Result("C11.codec_sweep", "refuted" if res.get("violates") else ("proved" if "error" not in res else "error"), str(res.get("detail") or res.get("error") or "")[:300], paths=res.get("cases", 0))
        r.native, r.confirmed, r.request, r.witness = res, bool(res.get("violates")), {"call": "c11_sweep", "args": args}, res.get("witness")
        return r

    pack.add(Obligation("C11.codec_sweep", run_sweep, kind="bounded", note="native run with the real codecs: every codec x container x way of naming the source x generated record sequences; the written file is decompressed by the codec's own standard decompressor "
                        "(gzip / bz2 / lz4.frame / zstandard) and starts with the published magic; arbitrary non-stream byte strings are refused; bound 30 (quick) / 400 (thorough) record sequences per matrix cell", functions=FU))
    pack.assumptions += ["codec contract (pyvc/models/ext.py codec_open): published magic first, reader inverts writer, foreign input refused; sampled against the real gzip / bz2 / lz4 / zstandard by C11.cross", "io.BufferedReader is transparent on the already peekable abstract files",
                         "peek(n) returns at least the first min(n, size) bytes (regular files, BytesIO): pipes delivering the first 19 bytes in several chunks are outside the model", "fastavro model, msgpack tree model"]
    pack.not_covered = ["interoperability of the written bytes with independent decompressors (only in the bounded sweep)", "stdout as a target", "pipes with short peeks"]
    return pack

"""C20 - text-oriented writers render every record completely.

Contracts on the real CsvfileWriter / CsvfileReader, LineWriter, TextWriter (csv replaced by its row contract, files abstract):

  CSV      for every run of records of one type: one header row of the selected field names, then one row per record whose cells are the record's values of
           those fields, in order; a new header whenever the type changes - also when an earlier type comes back; fields / exclude / lineterminator options
  CSV read header row (or the fields option) -> normalised field names, every later row -> one record whose text fields are the cells
  line     one block per record: the header line with the running number, then one 'name = value' line per selected field, right-aligned names, the field type in
           parentheses when verbose
  text     exactly repr(record), or the user's template applied to the record's fields (escape sequences are expanded in the TEMPLATE, never in values; unknown
           names stay as written); one trailing newline
  totality repr() / str() / format() of every field type and of the record are defined for representative and boundary values of every type (no field is dropped, no
           writer raises) - incl. sizes of an exbibyte, timestamps next to year 1 / 9999 under a display time zone, undecodable bytes
"""
import datetime as _dt
import importlib.util
import os
import pathlib

import re

import z3

from pyvc.models.ext import CsvRow

from .streamlib import *  # noqa

_spec = importlib.util.spec_from_file_location("c05_values", os.path.join(os.path.dirname(os.path.dirname(os.path.abspath(__file__))), "replay", "c05_values.py"))
V = importlib.util.module_from_spec(_spec)
_spec.loader.exec_module(V)
UTC = _dt.timezone.utc
GEN = _dt.datetime(2020, 1, 2, 3, 4, 5, tzinfo=UTC)
EXTRA = {"filesize": ["2**60", "2**70", "1023", "1024", "10**15"], "datetime": ["DT(1, 1, 1, 3, tzinfo=TZ(TD(hours=5)))", "DT(9999, 12, 31, 22, tzinfo=TZ(TD(hours=-5)))", "DT(1, 1, 1, tzinfo=TZ(TD(0)))"], "string": ["'a,b;c\\t\"q\"\\r\\nline'", "'\\udcff\\udc80'", "'é€😀'"],
         "path": ["PureWindowsPath('c:/caf\\udce9/x')", "PurePosixPath('/tmp/\\udcff\\udc80')", "PureWindowsPath('//srv/share/na\\udce9ve')"], "command": ["'c:\\\\caf\\udce9\\\\run.exe /x'", "'/bin/ls \\udcff'"], "uri": ["'http://h/\\udce9'"],
         "bytes": ["b'\\xff\\x00,\"'"], "float": ["float('nan')", "float('inf')", "1e308"], "varint": ["-2**70"], "unix_file_mode": ["0o7777"]}


def pyvalue(src):
    return eval(src, dict(V.NS, PurePosixPath=pathlib.PurePosixPath, PureWindowsPath=pathlib.PureWindowsPath))


def build(tier="quick", seed=0):
    it, L, base, pk, st = mods()
    cs = L.import_module("flow.record.adapter.csvfile")
    ln = L.import_module("flow.record.adapter.line")
    tx = L.import_module("flow.record.adapter.text")
    ft = L.import_module("flow.record.fieldtypes")
    pack = new_pack("C20", "Text-oriented writers render every record completely")
    RD = base.g["RecordDescriptor"]
    FU = ("flow.record.adapter.csvfile:CsvfileWriter.__init__", "flow.record.adapter.csvfile:CsvfileWriter.write", "flow.record.adapter.csvfile:CsvfileReader.__init__", "flow.record.adapter.csvfile:CsvfileReader.__iter__",
          "flow.record.adapter.line:LineWriter.write", "flow.record.adapter.line:field_types_for_record_descriptor", "flow.record.adapter.text:TextWriter.__init__", "flow.record.adapter.text:TextWriter.write", "flow.record.base:Record.__repr__",
          "flow.record.base:Record._asdict", "flow.record.base:normalize_fieldname", "flow.record.fieldtypes:<every field type>.__repr__/__str__/__format__", "flow.record.fieldtypes:human_readable_size", "flow.record.fieldtypes:datetime.__str__")
    x, y = z3.Int("x"), z3.Int("y")
    sv, sw = z3.String("s"), z3.String("w")
    from pyvc.models.strings import enc_bytes

    def fs(path, mode="w"):
        it.vfs, it.vfs_auto, it.vfs_events = {}, True, []

    # ------------------------------------------------------------------ CSV writer
    def th_csv(opts, history):
        def th():
            fs("/abs/out.csv")
            A = it.call(RD, ["c20/a", [("varint", "n"), ("string", "s"), ("string", "t")]], {})
            B = it.call(RD, ["c20/b", [("string", "s"), ("varint", "k")]], {})
            w = it.call(cs.g["CsvfileWriter"], ["/abs/out.csv"], dict(opts))
            recs = []
            for i, h in enumerate(history):
                r = it.call(A, [], {"n": SInt(x + i), "s": SStr(sv), "t": f"t{i}", "_generated": GEN}) if h == "A" else it.call(B, [], {"s": SStr(sw), "k": i, "_generated": GEN})
                recs.append(r)
                it.call(it.getattr_(w, "write"), [r], {})
            it.call(it.getattr_(w, "close"), [], {})
            return recs, it.vfs["/abs/out.csv"].content(), it.vfs["/abs/out.csv"].closed
        return th

    def judge_csv(opts, history):
        sel = opts.get("fields")
        sel = sel.split(",") if isinstance(sel, str) else sel
        ex = opts.get("exclude")
        ex = ex.split(",") if isinstance(ex, str) else (ex or [])
        term = {None: "\r\n", "\\n": "\n", "\\r\\n": "\r\n", ";": ";"}[opts.get("lineterminator")]

        def names(r):
            slots = list(r.cls.find("__slots__"))
            return [f for f in (sel if sel else slots) if f in slots and f not in ex]

        def judge(p):
            recs, segs, closed = p.value
            if not closed or not all(isinstance(s_, CsvRow) for s_ in segs):
                return False, f"output {segs!r:.200} (closed: {closed})"
            want = []
            prev = None
            for r, h in zip(recs, history):
                if h != prev:
                    want.append(("header", names(r)))
                prev = h
                want.append(("row", r, names(r)))
            if len(segs) != len(want):
                return False, f"history {history}: {len(segs)} CSV rows {[('H' if s_.header else 'r') for s_ in segs]}, expected a header for every run of one type: {[w[0][0] for w in want]}"
            conj = []
            for s_, w in zip(segs, want):
                if s_.terminator != term:
                    return False, f"line terminator {s_.terminator!r}, expected {term!r}"
                if w[0] == "header":
                    if not s_.header or s_.cells != w[1]:
                        return False, f"header row {s_.cells!r} ({'header' if s_.header else 'data'}), expected {w[1]!r}"
                else:
                    if s_.header or len(s_.cells) != len(w[2]):
                        return False, f"data row {s_.cells!r} for fields {w[2]!r}"
                    for c, f in zip(s_.cells, w[2]):
                        g, why = obs_eq(deep_obs(it, w[1].attrs[f]), deep_obs(it, c), f)
                        if g is False:
                            return False, f"cell of field {f}: {why}"
                        if g is not True:
                            conj.append(g)
            return (z3.And(*conj) if conj else True), "a cell is not the record's value"
        return judge

    CSV_CASES = [({}, "AAB"), ({}, "ABA"), ({}, "ABBA"), ({"fields": "s,n"}, "AAB"), ({"exclude": "_generated,_source,_classification,_version"}, "AB"), ({"fields": ["t", "s", "nosuch"], "exclude": ["s"]}, "AA"), ({"lineterminator": "\\n"}, "AB"), ({"lineterminator": ";"}, "A")]
    for opts, history in CSV_CASES:
        name = f"C20.csv[{opts or 'defaults'}, history {history}]"
        pack.add(Obligation(name, lambda tier, name=name, opts=opts, history=history: prove_paths(name, th_csv(opts, history), judge_csv(opts, history), lambda m_, p: {"x": model_value(m_, x), "s": model_value(m_, sv)}),
                            replay=lambda w, opts=opts, history=history: {"call": "c20_csv", "args": {"opts": {k: (",".join(v) if isinstance(v, list) else v) for k, v in opts.items()}, "history": history, "s": w.get("s") if isinstance(w.get("s"), str) else "v"}},
                            functions=FU, mode="representative type histories and option sets, symbolic integer / text cells"))

    # a grouped record is rendered through its flat view: for a field that several members have (always the reserved ones) the FIRST member's value
    for opts in ({}, {"fields": "_source,s,n"}):
        name = f"C20.csv[{opts or 'defaults'}, a grouped record whose members differ in shared fields]"

        def th_g(opts=opts):
            fs("/abs/out.csv")
            A = it.call(RD, ["c20/a", [("varint", "n"), ("string", "s")]], {})
            B = it.call(RD, ["c20/b", [("string", "s"), ("varint", "k")]], {})
            first = it.call(A, [], {"n": SInt(x), "s": SStr(sv), "_source": "first", "_generated": GEN})
            g = it.call(base.g["GroupedRecord"], ["c20/grp", [first, it.call(B, [], {"s": "other", "k": 2, "_source": "second", "_generated": GEN})]], {})
            w = it.call(cs.g["CsvfileWriter"], ["/abs/out.csv"], dict(opts))
            it.call(it.getattr_(w, "write"), [g], {})
            it.call(it.getattr_(w, "close"), [], {})
            return it.vfs["/abs/out.csv"].content(), first

        def judge_g(p, opts=opts):
            segs, first = p.value
            if len(segs) != 2 or not segs[0].header or segs[1].header:
                return False, f"output {segs!r:.200}"
            want_head = opts["fields"].split(",") if opts.get("fields") else ["n", "s", "k", "_source", "_classification", "_generated", "_version"]
            if (segs[0].cells != want_head) if opts.get("fields") else (sorted(segs[0].cells) != sorted(want_head) or [c for c in segs[0].cells if not c.startswith("_")] != ["n", "s", "k"]):
                return False, f"header {segs[0].cells}, expected the fields {want_head}"
            row = dict(zip(segs[0].cells, segs[1].cells))
            if it.unbase(row["_source"]) != "first":
                return False, f"cell _source is {it.unbase(row['_source'])!r}, the grouped record's _source is 'first'"
            gs, why = obs_eq(deep_obs(it, first.attrs["s"]), deep_obs(it, row["s"]), "s")
            gn, why2 = obs_eq(deep_obs(it, first.attrs["n"]), deep_obs(it, row["n"]), "n")
            if gs is False or gn is False:
                return False, why if gs is False else why2
            return z3.And(*[g_ for g_ in (gs, gn) if g_ is not True]) if (gs is not True or gn is not True) else True, "a cell is not the grouped record's value"

        pack.add(Obligation(name, lambda tier, name=name, th_g=th_g, judge_g=judge_g: prove_paths(name, th_g, judge_g, lambda m_, p: {"x": model_value(m_, x), "s": model_value(m_, sv)}), replay=lambda w, opts=opts: {"call": "c20_csv_grouped", "args": {"opts": opts}}, functions=FU,
                            mode="one grouped record of two members, symbolic integer / text cells"))

    # ------------------------------------------------------------------ CSV reader
    def th_csv_read(fields_opt):
        def th():
            it.vfs, it.vfs_auto = {}, True
            fp = AbsFile(it, [], mode="r")
            head = [["my name", "2nd", "plain", "_generated"]] if fields_opt is None else []
            fp.csv_rows = head + [[SStr(sv), "b", "c", "2020-01-02T03:04:05+00:00"], ["", SStr(sw), "z"], ["line1\r\nline2", "cr\ronly", "lf\nonly"], ["", "", ""]]  # (the last row: every cell empty - still a record)
            fp.preset = True
            it.vfs["/abs/in.csv"] = fp
            rd = it.call(cs.g["CsvfileReader"], ["/abs/in.csv"], {} if fields_opt is None else {"fields": fields_opt})
            out = list(it.iterate(rd))
            return [fields_tuple(o) for o in out], out

        def fields_tuple(o):
            return [tuple(f) for f in it.call(it.getattr_(it.getattr_(o, "_desc"), "get_field_tuples"), [], {})]
        return th

    def judge_csv_read(p):
        fl, out = p.value
        want = [("string", "my_name"), ("string", "x_2nd"), ("string", "plain")]
        if fl != [want, want, want, want] or len(out) != 4:
            return False, f"4 rows (the last one with empty cells only), records read: {fl!r}"
        a, b, c = out[0].attrs, out[1].attrs, out[2].attrs
        if (it.unbase(out[3].attrs["my_name"]), it.unbase(out[3].attrs["x_2nd"]), it.unbase(out[3].attrs["plain"])) != ("", "", ""):
            return False, f"the row of empty cells was read back as {out[3].attrs!r}"
        if (it.unbase(c["my_name"]), it.unbase(c["x_2nd"]), it.unbase(c["plain"])) != ("line1\r\nline2", "cr\ronly", "lf\nonly"):
            return False, f"cells with line breaks inside were read back as {(it.unbase(c['my_name']), it.unbase(c['x_2nd']), it.unbase(c['plain']))!r}"
        if it.unbase(a["x_2nd"]) != "b" or it.unbase(a["plain"]) != "c" or it.unbase(b["my_name"]) != "" or it.unbase(b["plain"]) != "z":
            return False, f"cells read back as {a!r} {b!r}"
        return z3.And(it.zstr(a["my_name"]) == sv, it.zstr(b["x_2nd"]) == sw), "a text cell changed"

    for fo in (None, "my name,2nd,plain,_generated"):
        name = f"C20.csv.read[{'header row' if fo is None else 'fields option'}]"
        pack.add(Obligation(name, lambda tier, name=name, fo=fo: prove_paths(name, th_csv_read(fo), judge_csv_read, lambda m_, p: {"s": model_value(m_, sv), "w": model_value(m_, sw)}), replay=lambda w: {"call": "c20_csv_read", "args": {"s": w.get("s") if isinstance(w.get("s"), str) else "a", "w": w.get("w") if isinstance(w.get("w"), str) else "b"}},
                            functions=FU, mode="symbolic text cells"))

    # ------------------------------------------------------------------ line writer
    def th_line(opts):
        def th():
            fp = AbsFile(it, mode="wb")
            A = it.call(RD, ["c20/a", [("varint", "n"), ("string", "longer_name"), ("bytes", "b")]], {})
            w = it.call(ln.g["LineWriter"], [fp], dict(opts))
            for i in range(2):
                it.call(it.getattr_(w, "write"), [it.call(A, [], {"n": 5 + i, "longer_name": SStr(sv), "b": b"\xff", "_generated": GEN})], {})
            return fp.content()
        return th

    def judge_line(opts):
        sel = opts.get("fields")
        sel = sel.split(",") if isinstance(sel, str) else sel
        ex = opts.get("exclude")
        ex = ex.split(",") if isinstance(ex, str) else (ex or [])
        slots = ["n", "longer_name", "b", "_source", "_classification", "_generated", "_version"]
        types = {"n": "varint", "longer_name": "string", "b": "bytes", "_source": "string", "_classification": "string", "_generated": "datetime", "_version": "varint"}
        names = [f for f in (sel if sel else slots) if f in slots and f not in ex]
        verbose = bool(opts.get("verbose"))

        def judge(p):
            segs = p.value
            per = 1 + len(names)
            if len(segs) != 2 * per:
                return False, f"{len(segs)} lines written for 2 records x ({len(names)} fields + header line)"
            conj = []
            for i in range(2):
                block = segs[i * per:(i + 1) * per]
                if block[0] != f"--[ RECORD {i + 1} ]--\n".encode():
                    return False, f"block header {block[0]!r}"
                labels = [f"{k} ({types[k]})" if verbose else k for k in names]
                width = max(len(l_) for l_ in labels) if labels else 0
                for lab, k, seg in zip(labels, names, block[1:]):
                    val = {"n": str(5 + i), "b": repr(b"\xff"), "_source": "None", "_classification": "None", "_generated": "2020-01-02 03:04:05+00:00", "_version": "1"}.get(k)
                    prefix = lab.rjust(width) + " = "
                    if k == "longer_name":
                        if not isinstance(seg, SBytes):
                            return False, f"line of {k}: {seg!r}"
                        conj.append(seg.t == enc_bytes(z3.Concat(z3.StringVal(prefix), sv, z3.StringVal("\n"))))
                    elif seg != (prefix + val + "\n").encode():
                        return False, f"line of {k}: {seg!r}, expected {(prefix + val)!r}"
            return (z3.And(*conj) if conj else True), "the text value is not rendered as itself"
        return judge

    for opts in ({}, {"verbose": True}, {"fields": "longer_name,n"}, {"exclude": ["_source", "_classification", "_generated", "_version"], "verbose": True}, {"fields": ["b"], "exclude": "b"}):
        name = f"C20.line[{opts or 'defaults'}]"
        pack.add(Obligation(name, lambda tier, name=name, opts=opts: prove_paths(name, th_line(opts), judge_line(opts), lambda m_, p: {"s": model_value(m_, sv)}), replay=lambda w, opts=opts: {"call": "c20_line", "args": {"opts": {k: (",".join(v) if isinstance(v, list) else v) for k, v in opts.items()}, "s": w.get("s") if isinstance(w.get("s"), str) else "v"}},
                            functions=FU, mode="representative option sets, symbolic text value"))

    # ------------------------------------------------------------------ text writer
    # the text writer is checked with concrete integers (the string form of a symbolic integer is outside the string theory used here)
    def th_text_concrete(format_spec, s_value):
        def th():
            fp = AbsFile(it, mode="wb")
            A = it.call(RD, ["c20/a", [("varint", "n"), ("string", "s")]], {})
            w = it.call(tx.g["TextWriter"], [fp], {} if format_spec is None else {"format_spec": format_spec})
            r = it.call(A, [], {"n": 42, "s": s_value, "_generated": GEN})
            it.call(it.getattr_(w, "write"), [r], {})
            it.call(it.getattr_(w, "write"), [r], {})
            return fp.content(), fp.nflush
        return th

    TEXT_CASES = [(None, "plain", [b"<c20/a n=42 s='plain'>\n"] * 2), (None, "q'\n", [("<c20/a n=42 s=" + repr("q'\n") + ">\n").encode()] * 2), ("{n}\\t{s}|{unknown}\\n--", "lit\\n{n}\\tend", [b"42\tlit\\n{n}\\tend|{unknown}\n--\n"] * 2),
                  ("{s}", "\udcff\udc80", [b"\xff\x80\n"] * 2), ("{_version}:{n:>5}", "v", [b"1:   42\n"] * 2),
                  # attribute and index access and a nested field in a format spec are part of the template language
                  ("{s[0]}-{n.real}-{s[1]}", "plain", [b"p-42-l\n"] * 2), ("{s:*^{n}}|", "ab", [b"ab".center(42, b"*") + b"|\n"] * 2), ("{n.numerator}/{_version.real}", "v", [b"42/1\n"] * 2)]
    for spec_, sval, want in TEXT_CASES:
        name = f"C20.text[template {spec_!r}, s={sval!r}]"
        pack.add(Obligation(name, lambda tier, name=name, spec_=spec_, sval=sval, want=want: prove_paths(name, th_text_concrete(spec_, sval), lambda p: (p.value[0] == want and p.value[1] >= 2, f"text output {p.value[0]!r}, expected {want!r}")),
                            replay=lambda w, spec_=spec_, sval=sval: {"call": "c20_text", "args": {"format_spec": spec_, "s": sval}}, functions=FU, mode="representative templates and values (escape sequences in the template vs. in values, unknown names, format specs, undecodable bytes)"))

    # a grouped record: its printable representation names the group and shows every member in full; a template sees the flat view (first member wins)
    def th_text_grouped(format_spec):
        def th():
            fp = AbsFile(it, mode="wb")
            A = it.call(RD, ["c20/a", [("varint", "n"), ("string", "s")]], {})
            B = it.call(RD, ["c20/b", [("string", "s"), ("varint", "k")]], {})
            g = it.call(base.g["GroupedRecord"], ["c20/grp", [it.call(A, [], {"n": 42, "s": "one", "_generated": GEN}), it.call(B, [], {"s": "two", "k": 7, "_generated": GEN})]], {})
            w = it.call(tx.g["TextWriter"], [fp], {} if format_spec is None else {"format_spec": format_spec})
            it.call(it.getattr_(w, "write"), [g], {})
            return fp.content()
        return th

    for spec_, want in ((None, [b"<c20/grp [<c20/a n=42 s='one'>, <c20/b s='two' k=7>]>\n"]), ("{n}/{s}/{k}/{_version}", [b"42/one/7/1\n"])):
        name = f"C20.text[grouped record, template {spec_!r}]"
        pack.add(Obligation(name, lambda tier, name=name, spec_=spec_, want=want: prove_paths(name, th_text_grouped(spec_), lambda p: (p.value == want, f"text output {p.value!r}, expected {want!r}")),
                            replay=lambda w, spec_=spec_, want=want: {"call": "c20_text_grouped", "args": {"format_spec": spec_, "want": want[0].decode()}}, functions=FU + ("flow.record.base:GroupedRecord.__repr__",), mode="one grouped record of two members that share a field name"))

    # the line writer on a grouped record: one line per field of the flat view, each field once, the first member's value for a shared field
    G_LINES = {"n": ("varint", "42"), "s": ("string", "one"), "k": ("varint", "7"), "_source": ("string", "first"), "_classification": ("string", "None"), "_generated": ("datetime", "2020-01-02 03:04:05+00:00"), "_version": ("varint", "1")}

    def g_expected(opts):
        sel = opts.get("fields")
        names = [f for f in (sel.split(",") if sel else list(G_LINES)) if f in G_LINES]
        labels = {k: (f"{k} ({G_LINES[k][0]})" if opts.get("verbose") else k) for k in names}
        width = max(len(v) for v in labels.values())
        return sorted((labels[k].rjust(width) + " = " + G_LINES[k][1] + "\n").encode() for k in names)

    def th_line_grouped(opts):
        def th():
            fp = AbsFile(it, mode="wb")
            A = it.call(RD, ["c20/a", [("varint", "n"), ("string", "s")]], {})
            B = it.call(RD, ["c20/b", [("string", "s"), ("varint", "k")]], {})
            g = it.call(base.g["GroupedRecord"], ["c20/grp", [it.call(A, [], {"n": 42, "s": "one", "_generated": GEN, "_source": "first"}), it.call(B, [], {"s": "two", "k": 7, "_generated": GEN, "_source": "second"})]], {})
            w = it.call(ln.g["LineWriter"], [fp], dict(opts))
            it.call(it.getattr_(w, "write"), [g], {})
            return fp.content()
        return th

    for opts in ({}, {"verbose": True}, {"fields": "k,s"}):
        name = f"C20.line[grouped record, {opts or 'defaults'}]"
        pack.add(Obligation(name, lambda tier, name=name, opts=opts: prove_paths(name, th_line_grouped(opts), lambda p, opts=opts: (p.value[:1] == [b"--[ RECORD 1 ]--\n"] and sorted(p.value[1:]) == g_expected(opts), f"line output {p.value!r}, expected the block header and (in some order) {g_expected(opts)!r}")),
                            replay=lambda w, opts=opts: {"call": "c20_line_grouped", "args": {"opts": opts, "want": [x.decode() for x in g_expected(opts)]}}, functions=FU, mode="one grouped record of two members that share a field name"))

    # a template with format specs applied to a record whose fields are unset: the writer does not fail; what is set is rendered as the template says
    UNSET_CASES = [("{s:>6}|{n:05d}|{n}", {"n": 42}, rb"\s*\S*\|00042\|42\n"), ("{s:>6}|{n:05d}|{n}", {}, rb"[^|]*\|[^|]*\|[^|]*\n"), ("{n:x}-{s:^7}-{_source:>3}", {"s": "mid"}, rb"[^-]*-  mid  -[^-]*\n"), ("{s!r:>8}.{n:>4}", {}, rb"[^.]*\.[^.]*\n")]
    for spec_, setv, rx in UNSET_CASES:
        name = f"C20.text[template {spec_!r}, fields set: {sorted(setv) or 'none'}]"

        def th_unset(spec_=spec_, setv=setv):
            fp = AbsFile(it, mode="wb")
            A = it.call(RD, ["c20/a", [("varint", "n"), ("string", "s")]], {})
            w = it.call(tx.g["TextWriter"], [fp], {"format_spec": spec_})
            it.call(it.getattr_(w, "write"), [it.call(A, [], dict(setv, _generated=GEN))], {})
            return fp.content()

        pack.add(Obligation(name, lambda tier, name=name, th_unset=th_unset, rx=rx: prove_paths(name, th_unset, lambda p, rx=rx: (len(p.value) == 1 and isinstance(p.value[0], bytes) and re.fullmatch(rx, p.value[0]) is not None, f"text output {p.value!r}, expected one line of the form {rx!r}")),
                            replay=lambda w, spec_=spec_, setv=setv, rx=rx: {"call": "c20_text_unset", "args": {"format_spec": spec_, "setv": setv, "rx": rx.decode()}}, functions=FU, mode="representative templates with format specs over unset fields"))

    # ------------------------------------------------------------------ totality over every field type
    def th_total(t, src, display):
        def th():
            it.vfs, it.vfs_auto = {}, True
            D = it.call(RD, ["c20/t", [(t, "x")]], {})
            r = it.call(D, [], {"x": pyvalue(src), "_generated": GEN})
            ft.g["DISPLAY_TZINFO"] = display
            try:
                out = {}
                for wname, mk in (("text", lambda fp: it.call(tx.g["TextWriter"], [fp], {})), ("template", lambda fp: it.call(tx.g["TextWriter"], [fp], {"format_spec": "{x}|{x!r}"})), ("line", lambda fp: it.call(ln.g["LineWriter"], [fp], {"verbose": True}))):
                    fp = AbsFile(it, mode="wb")
                    w = mk(fp)
                    it.call(it.getattr_(w, "write"), [r], {})
                    out[wname] = len(fp.content())
                w = it.call(cs.g["CsvfileWriter"], ["/abs/t.csv"], {})
                it.call(it.getattr_(w, "write"), [r], {})
                row = it.vfs["/abs/t.csv"].content()[1]
                from pyvc.models.strings import str_of
                out["csv-cell-text"] = str_of(it, row.cells[0]) is not None
            finally:
                ft.g["DISPLAY_TZINFO"] = UTC
            return out
        return th

    DISPLAYS = {"UTC": UTC, "none": None, "+14:00": _dt.timezone(_dt.timedelta(hours=14))}
    for t in V.SCALARS:
        srcs = list(dict.fromkeys(V.VALID.get(t, []) + EXTRA.get(t, [])))
        for src in srcs:
            for dn, disp in DISPLAYS.items():
                if t != "datetime" and dn != "UTC":
                    continue
                name = f"C20.total[{t}, {src}{'' if dn == 'UTC' else ', display ' + dn}]"
                pack.add(Obligation(name, lambda tier, name=name, t=t, src=src, disp=disp: prove_paths(name, th_total(t, src, disp), lambda p: (p.value.get("text") == 1 and p.value.get("template") == 1 and p.value.get("line") == 6 and p.value.get("csv-cell-text") is True, f"writers produced {p.value!r}")),
                                    replay=lambda w, t=t, src=src, dn=dn: {"call": "c20_total", "args": {"ftype": t, "src": src, "display": dn}}, functions=FU, mode="representative value"))
        if t in V.LISTABLE and srcs:
            lsrc = "[" + ", ".join(srcs[:3]) + "]"
            name = f"C20.total[{t}[], {lsrc}]"
            pack.add(Obligation(name, lambda tier, name=name, t=t, lsrc=lsrc: prove_paths(name, th_total(t + "[]", lsrc, UTC), lambda p: (p.value.get("text") == 1 and p.value.get("template") == 1 and p.value.get("line") == 6 and p.value.get("csv-cell-text") is True, f"writers produced {p.value!r}")),
                                replay=lambda w, t=t, lsrc=lsrc: {"call": "c20_total", "args": {"ftype": t + "[]", "src": lsrc, "display": "UTC"}}, functions=FU, mode="representative value"))
    pack.case_analyses.append("totality: every field type with the representative values of replay/c05_values.py plus boundary values (exbibyte sizes, timestamps next to year 1 / 9999 under three display settings, undecodable bytes, CSV metacharacters)")

    # ------------------------------------------------------------------ canary / conformance / bounded
    def run_canary(tier):
        return prove_paths("C20.canary", th_csv({}, "ABA"), judge_csv({}, "AAA"), lambda m_, p: {})  # deliberately judged as if the type never changed

    pack.add(Obligation("C20.canary", run_canary, kind="canary"))

    def run_cross(tier):
        res = native_replay({"call": "c10_model_conformance", "args": {}})
        return Result("C20.cross", "proved" if res.get("ok") else "refuted", str(res.get("detail") or res.get("error") or "")[:300], paths=res.get("cases", 0))

    pack.add(Obligation("C20.cross", run_cross, kind="cross"))

    def run_sweep(tier):
        args = {"seed": seed, "n": 120 if tier == "quick" else 2500}
        res = native_replay({"call": "c20_sweep", "args": args}, timeout=3000)
        r = Result("C20.text_sweep", "refuted" if res.get("violates") else ("proved" if "error" not in res else "error"), str(res.get("detail") or res.get("error") or "")[:300], paths=res.get("cases", 0))
        r.native, r.confirmed, r.request, r.witness = res, bool(res.get("violates")), {"call": "c20_sweep", "args": args}, res.get("witness")
        return r

    pack.add(Obligation("C20.text_sweep", run_sweep, kind="bounded", note="native run with the real csv module: random records over all field types (delimiters, quotes, line breaks, unicode, undecodable bytes) x fields / exclude / lineterminator / verbose / format options; "
                        "the CSV output is parsed by a standard CSV parser (cells == str(value), header per run of one type), line and text output compared with reference renderings, CSV files with safe cells read back; bound 120 (quick) / 2500 (thorough) cases", functions=FU))
    pack.assumptions += ["csv model: DictWriter appends one logical row of the given cells per call (quoting and str() of cells are the csv module's: sampled by C20.cross and the bounded sweep); csv.reader yields the rows", "file contract",
                         "repr / str / format of field values run natively on representative values (datetime, pathlib, ipaddress, float formatting are the standard library's)"]
    pack.not_covered = ["the csv module's quoting and the dialect sniffer (only in the bounded sweep with the real module)", "values beyond the representative ones for the totality claim (all paths of human_readable_size and of the __repr__/__str__ methods are executed, their arithmetic on concrete values)"]
    return pack


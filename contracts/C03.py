"""C03 - every record is decoded with the descriptor it was written with.

Data structure against an abstract view, by induction over the write / read history.  Ghost F = the frames (lines) emitted so far.

  writer invariant  InvW(R, F):  every identifier key of the packer's registry R has its descriptor definition in F
  one write step from an ARBITRARY registry R (symbolic dictionary) on the real code (RecordStreamWriter.write / JsonfileWriter.write with the packers underneath):
     identifier not in R   ->  F grows by DESC(d) (for the record's type and for every nested / grouped member type not in R), all BEFORE the record's own frame, and R gains them
     identifier in R       ->  only the record frame is emitted                       (needs NoCoincidence: R[identifier] is the record's descriptor)
     the guard is the identifier, not the bare name: a registered same-name type does not suppress the definition
  frame:  pack writes nothing on the record / descriptor objects it is given except the descriptor's own lazily computed caches; registries are per packer object
  reader: a descriptor frame (line) stores the definition under its identifier and leaves other identifiers alone; a record is rebuilt with registry[identifier]
  (the one-iteration step of the binary reader loop is C04.iter.step[descriptor|record|unknown descriptor])

Known finding: the identifier hash input name ++ fieldname ++ type .. is not injective, so two DISTINCT descriptors can share an identifier (C03.coincidence).
"""
import z3

from pyvc.models.jsonm import JSText

from .streamlib import *  # noqa

CACHE_ATTRS = {"_desc_hash", "_fields", "_all_fields"}


def build(tier="quick", seed=0):
    it, L, base, pk, st = mods()
    jp = L.import_module("flow.record.jsonpacker")
    jf = L.import_module("flow.record.adapter.jsonfile")
    pack = new_pack("C03", "Every record is decoded with the descriptor it was written with")
    RD, GR = base.g["RecordDescriptor"], base.g["GroupedRecord"]
    FU = ("flow.record.packer:RecordPacker.register", "flow.record.packer:RecordPacker.pack_obj", "flow.record.packer:RecordPacker.unpack_obj", "flow.record.packer:RecordPacker.__init__", "flow.record.stream:RecordStreamWriter.write",
          "flow.record.stream:RecordStreamWriter.on_new_descriptor", "flow.record.stream:RecordStreamWriter.__init__", "flow.record.stream:RecordStreamReader.__iter__", "flow.record.jsonpacker:JsonRecordPacker.register",
          "flow.record.jsonpacker:JsonRecordPacker.pack_obj", "flow.record.jsonpacker:JsonRecordPacker.unpack_obj", "flow.record.jsonpacker:JsonRecordPacker.unpack", "flow.record.adapter.jsonfile:JsonfileWriter._write",
          "flow.record.adapter.jsonfile:JsonfileWriter.packer_on_new_descriptor", "flow.record.adapter.jsonfile:JsonfileReader.__iter__", "flow.record.utils:EventHandler.__call__", "flow.record.base:RecordDescriptor.identifier")
    x, sv = z3.Int("x"), z3.String("s")

    # ------------------------------------------------------------------ events of what was written (decoded from the msgpack / JSON trees by the format)
    def plain(t):
        if t[0] == "leaf":
            return it.unbase(t[1])
        if t[0] == "arr":
            return [plain(e) for e in t[1]]
        return t

    def ids_in(t, acc):
        """identifiers of the records nested in a msgpack value tree"""
        if t[0] == "ext" and t[1] == EXT and isinstance(t[2], MPBytes):
            inner = t[2].tree[1]
            sub = plain(inner[0])
            if sub == 1:
                acc.append(tuple(plain(inner[1][1][0])))
                for v in inner[1][1][1][1]:
                    ids_in(v, acc)
            elif sub == 0x12:
                for m_ in inner[1][1][1][1]:
                    acc.append(tuple(plain(m_[1][0])))
                    for v in m_[1][1][1]:
                        ids_in(v, acc)
        elif t[0] == "arr":
            for e in t[1]:
                ids_in(e, acc)

    def stream_events(segs):
        ev = []
        for body in segs[1::2]:
            t = body.tree
            if t == ("leaf", MAGIC):
                continue
            if t[0] != "ext" or not isinstance(t[2], MPBytes):
                ev.append(("?", t))
                continue
            inner = t[2].tree[1]
            sub = plain(inner[0])
            if sub == 2:
                name, fields = plain(inner[1][1][0]), tuple(tuple(f) for f in plain(inner[1][1][1]))
                ev.append(("DESC", (name, W.descriptor_hash(name, fields)), fields))
            else:
                acc = []
                ids_in(t, acc)
                ev.append(("REC", acc))
        return ev

    def json_ids(t, acc):
        if t[0] == "obj":
            d = dict((k, v) for k, v in t[1])
            if "_type" in d and plain(d["_type"]) == "record":
                acc.append(tuple(plain(d["_recorddescriptor"])))
            for _, v in t[1]:
                json_ids(v, acc)
        elif t[0] == "arr":
            for e in t[1]:
                json_ids(e, acc)

    def json_events(segs):
        ev = []
        for line in segs:
            if not isinstance(line, JSText) or line.suffix != "\n":
                ev.append(("?", line))
                continue
            d = dict(line.tree[1]) if line.tree[0] == "obj" else {}
            if "_type" in d and plain(d["_type"]) == "recorddescriptor":
                name, fields = plain(d["_data"])
                fields = tuple(tuple(f) for f in fields)
                ev.append(("DESC", (name, W.descriptor_hash(name, fields)), fields))
            else:
                acc = []
                json_ids(line.tree, acc)
                ev.append(("REC", acc))
        return ev

    def well_ordered(events, known):
        known = set(known)
        for i, e in enumerate(events):
            if e[0] == "DESC":
                known.add(e[1])
            elif e[0] == "REC":
                missing = [i_ for i_ in e[1] if i_ not in known]
                if missing:
                    return f"frame {i}: record of type {missing[0]} is written before any definition of that type (events {[(v[0], v[1]) for v in events]})"
            else:
                return f"frame {i}: not a frame of the format: {e[1]!r}"
        return None

    # ------------------------------------------------------------------ writers with an arbitrary registry
    def arb_registry(present=(), absent=(), default=None):
        reg = SymDict("R")
        reg.default = default
        for k, v in present:
            it.setitem(reg, k, v)
        for k in absent:
            it.assume(z3.Not(it.contains(reg, k).t))
        return reg

    def stream_writer(reg):
        fp = AbsFile(it, mode="wb")
        w = it.call(st.g["RecordStreamWriter"], [fp], {})
        if reg is not None:
            w.attrs["packer"].attrs["descriptors"] = reg
        return fp, w, (lambda: stream_events(fp.content()))

    def json_writer(reg):
        fp = AbsFile(it, mode="w")
        w = it.call(jf.g["JsonfileWriter"], [fp], {})
        if reg is not None:
            w.attrs["packer"].attrs["descriptors"] = reg
        return fp, w, (lambda: json_events(fp.content()))

    WRITERS = {"stream": stream_writer, "json": json_writer}

    def ident(D):
        return it.getattr_(D, "identifier")

    def descs():
        A = it.call(RD, ["c03/a", [("varint", "n")]], {})
        A2 = it.call(RD, ["c03/a", [("string", "s")]], {})  # same name, other fields
        B = it.call(RD, ["c03/b", [("string", "s")]], {})
        N = it.call(RD, ["c03/nest", [("record", "r"), ("record[]", "rs")]], {})
        return A, A2, B, N

    def scenario(kind, fmt):
        """returns thunk -> (complaint or None)"""
        def th():
            A, A2, B, N = descs()
            a = it.call(A, [], {"n": SInt(x)})
            a2 = it.call(A2, [], {"s": SStr(sv)})
            b = it.call(B, [], {"s": "b"})
            mk = WRITERS[fmt]
            if kind == "new type":
                reg = arb_registry(absent=[ident(A)], default=A2)
                fp, w, events = mk(reg)
                it.call(it.getattr_(w, "write"), [a], {})
                ev = events()
                if [e[0] for e in ev] != ["DESC", "REC"] or ev[0][1] != ident(A) or ev[0][2] != (("varint", "n"),) or ev[1][1] != [ident(A)]:
                    return f"a record of a type that is not in the registry must be preceded by its definition: {ev!r}"
                it.call(it.getattr_(w, "write"), [a], {})  # the type is known from now on (observed through behaviour, not through the registry's representation)
                ev = events()
                if [e[0] for e in ev] not in (["DESC", "REC", "REC"], ["DESC", "REC", "DESC", "REC"]) or not well_ordered(ev, []) is None:
                    return f"after the definition was emitted: {ev!r}"
                return None
            if kind == "known type":
                reg = arb_registry(present=[(ident(A), A)], default=A2)
                fp, w, events = mk(reg)
                it.call(it.getattr_(w, "write"), [a], {})
                ev = events()
                return None if [e[0] for e in ev] == ["REC"] and ev[0][1] == [ident(A)] else f"a record whose type is registered: {ev!r}"
            if kind == "same name registered":
                # the bare name and the identifier of the OTHER c03/a are in the registry; this identifier is not
                reg = arb_registry(present=[(ident(A2), A2), ("c03/a", A2)], absent=[ident(A)], default=A2)
                fp, w, events = mk(reg)
                it.call(it.getattr_(w, "write"), [a], {})
                ev = events()
                return well_ordered(ev, [ident(A2)]) or (None if [e[0] for e in ev] == ["DESC", "REC"] else f"{ev!r}")
            if kind in ("nested, nothing known", "nested, holder known", "nested, inner known"):
                n = it.call(N, [], {"r": a, "rs": [a2, b]})
                present = {"nested, nothing known": [], "nested, holder known": [(ident(N), N)], "nested, inner known": [(ident(A), A), (ident(B), B)]}[kind]
                absent = [i_ for i_ in (ident(N), ident(A), ident(A2), ident(B)) if i_ not in [p[0] for p in present]]
                reg = arb_registry(present=present, absent=absent, default=A2)
                fp, w, events = mk(reg)
                it.call(it.getattr_(w, "write"), [n], {})
                ev = events()
                bad = well_ordered(ev, [p[0] for p in present])
                if bad:
                    return bad
                if ev[-1][0] != "REC" or set(ev[-1][1]) != {ident(N), ident(A), ident(A2), ident(B)} or ev[-1][1][0] != ident(N):
                    return f"the record frame does not name the holder and the nested types: {ev[-1]!r}"
                return None
            if kind in ("grouped, nothing known", "grouped, one member known", "grouped, same names registered"):
                g = it.call(GR, ["c03/grp", [a, b, a2]], {})
                if kind == "grouped, nothing known":
                    present, absent = [], [ident(A), ident(B), ident(A2)]
                elif kind == "grouped, one member known":
                    present, absent = [(ident(A), A)], [ident(B), ident(A2)]
                else:
                    present, absent = [(ident(A), A), ("c03/a", A), ("c03/b", A)], [ident(B), ident(A2)]
                reg = arb_registry(present=present, absent=absent, default=A)
                fp, w, events = mk(reg)
                it.call(it.getattr_(w, "write"), [g], {})
                ev = events()
                bad = well_ordered(ev, [p[0] for p in present if isinstance(p[0], tuple)])
                if bad:
                    return bad
                return None if ev[-1][0] == "REC" and ev[-1][1] == [ident(A), ident(B), ident(A2)] else f"grouped frame members: {ev[-1]!r}"
            if kind == "grouped twice, other members":
                G1 = it.call(RD, ["c03/p", [("varint", "n")]], {})
                G2 = it.call(RD, ["c03/q", [("varint", "n")]], {})
                g1 = it.call(GR, ["c03/grp", [it.call(G1, [], {"n": 1}), b]], {})
                g2 = it.call(GR, ["c03/grp", [it.call(G2, [], {"n": 2}), b]], {})  # same flat descriptor, another member type
                reg = arb_registry(absent=[ident(G1), ident(G2), ident(B)], default=A2)
                fp, w, events = mk(reg)
                it.call(it.getattr_(w, "write"), [g1], {})
                it.call(it.getattr_(w, "write"), [g2], {})
                return well_ordered(events(), [])
            if kind == "same hash text, other name":
                # two types with DIFFERENT names whose name ++ field name ++ type text is the same ("c03/log" + "inuser" / "c03/login" + "user"): their
                # identifiers differ (the name is part of the identifier), so each needs its own definition and is decoded with its own descriptor
                X = it.call(RD, ["c03/log", [("string", "inuser")]], {})
                Y = it.call(RD, ["c03/login", [("string", "user")]], {})
                fp, w, events = mk(None)
                for r in (it.call(X, [], {"inuser": "1"}), it.call(Y, [], {"user": "2"}), it.call(X, [], {"inuser": "3"}), it.call(N, [], {"r": it.call(Y, [], {"user": "4"}), "rs": [it.call(X, [], {"inuser": "5"})]})):
                    it.call(it.getattr_(w, "write"), [r], {})
                ev = events()
                bad = well_ordered(ev, [])
                if bad:
                    return bad
                if fmt == "stream":
                    rdr = it.call(st.g["RecordStreamReader"], [AbsFile(it, fp.content())], {})
                else:
                    rdr = it.call(jf.g["JsonfileReader"], [AbsFile(it, fp.content(), mode="r")], {})
                out = list(it.iterate(rdr))
                got = [(it.getattr_(it.getattr_(o, "_desc"), "name"), [tuple(f) for f in it.call(it.getattr_(it.getattr_(o, "_desc"), "get_field_tuples"), [], {})]) for o in out[:3]]
                want = [("c03/log", [("string", "inuser")]), ("c03/login", [("string", "user")]), ("c03/log", [("string", "inuser")])]
                return None if got == want else f"records read back with descriptors {got}, written with {want}"
            if kind == "names that differ only in '/' and '_'":
                # c03/x_y, c03/x/y and c03_x/y with the same field list are three types: each record carries - and is decoded with - the descriptor it was created with
                names = ["c03/x_y", "c03/x/y", "c03_x/y", "c03/x_y"]
                Ds = [it.call(RD, [nm, [("string", "s")]], {}) for nm in names]
                recs = [it.call(D_, [], {"s": str(i)}) for i, D_ in enumerate(Ds)]
                created = [it.getattr_(it.getattr_(r, "_desc"), "name") for r in recs]
                if created != names:
                    return f"records created through descriptors named {names} carry descriptors named {created}"
                fp, w, events = mk(None)
                for r in recs:
                    it.call(it.getattr_(w, "write"), [r], {})
                bad = well_ordered(events(), [])
                if bad:
                    return bad
                if fmt == "stream":
                    rdr = it.call(st.g["RecordStreamReader"], [AbsFile(it, fp.content())], {})
                else:
                    rdr = it.call(jf.g["JsonfileReader"], [AbsFile(it, fp.content(), mode="r")], {})
                got = [it.getattr_(it.getattr_(o, "_desc"), "name") for o in it.iterate(rdr)]
                return None if got == names else f"records read back under the names {got}, written as {names}"
            if kind == "declared with byte strings":
                # names and types given as byte strings are normalised to text: the identifier a record carries is the one of the (text) definition that is emitted
                X = it.call(RD, [b"c03/bytes", [(b"varint", b"n"), ("string", b"s")]], {})
                fp, w, events = mk(None)
                it.call(it.getattr_(w, "write"), [it.call(X, [], {"n": 1, "s": "x"})], {})
                ev = events()
                bad = well_ordered(ev, [])
                if bad:
                    return bad
                want_id = ("c03/bytes", W.descriptor_hash("c03/bytes", (("varint", "n"), ("string", "s"))))
                if [e[0] for e in ev] != ["DESC", "REC"] or ev[0][1] != want_id or ev[1][1] != [want_id]:
                    return f"a type declared with byte strings: definition {ev[0][1:] if ev else None!r}, record names {ev[1][1] if len(ev) > 1 else None!r}, the text definition has the identifier {want_id!r}"
                return None
            if kind == "write refused while packing, caller carries on":
                # the first record of a type cannot be serialised (an unpackable value inside a dictlist): the write raises, the caller catches it and
                # writes a good record of the same type - the definition of the type must still precede it
                DL = it.call(RD, ["c03/dl", [("dictlist", "dl"), ("varint", "n")]], {})
                bad_rec = it.call(DL, [], {"dl": [{"k": {1, 2}}], "n": 1})
                good = it.call(DL, [], {"dl": [{"k": "v"}], "n": SInt(x)})
                fp, w, events = mk(None)
                try:
                    it.call(it.getattr_(w, "write"), [bad_rec], {})
                    return "a record holding an unpackable value was written"
                except PyRaise:
                    pass
                it.call(it.getattr_(w, "write"), [good], {})
                it.call(it.getattr_(w, "write"), [a], {})
                ev = events()
                bad = well_ordered(ev, [])
                if bad:
                    return "after a refused write: " + bad
                if fmt == "stream":
                    rdr = it.call(st.g["RecordStreamReader"], [AbsFile(it, fp.content())], {})
                else:
                    rdr = it.call(jf.g["JsonfileReader"], [AbsFile(it, fp.content(), mode="r")], {})
                out = list(it.iterate(rdr))
                got = [it.getattr_(it.getattr_(o, "_desc"), "name") for o in out]
                return None if got == ["c03/dl", "c03/a"] else f"after a refused write the stream reads back as {got}, written: c03/dl, c03/a"
            if kind in ("one holder with two same-name types, read back", "grouped record of two same-name types, read back"):
                # ONE record needs two definitions of the same name at once: both are emitted in front of it and both are still there when the reader decodes it
                if kind.startswith("one holder"):
                    rec = it.call(N, [], {"r": a, "rs": [a2, a]})
                    inner = lambda o: [it.getattr_(o, "r")] + list(it.iterate(it.getattr_(o, "rs")))
                else:
                    rec = it.call(GR, ["c03/grp", [a, a2]], {})
                    inner = lambda o: list(it.getattr_(o, "records"))
                fp, w, events = mk(None)
                it.call(it.getattr_(w, "write"), [rec], {})
                it.call(it.getattr_(w, "write"), [b], {})
                bad = well_ordered(events(), [])
                if bad:
                    return bad
                if fmt == "stream":
                    rdr = it.call(st.g["RecordStreamReader"], [AbsFile(it, fp.content())], {})
                else:
                    rdr = it.call(jf.g["JsonfileReader"], [AbsFile(it, fp.content(), mode="r")], {})
                try:
                    out = list(it.iterate(rdr))
                except PyRaise as e:
                    return f"the stream cannot be read back: {e.cls_name}: {e}"
                if len(out) != 2:
                    return f"{len(out)} record(s) read back, 2 written"
                got = [[tuple(f) for f in it.call(it.getattr_(it.getattr_(x_, "_desc"), "get_field_tuples"), [], {})] for x_ in inner(out[0])]
                want = [[("varint", "n")], [("string", "s")], [("varint", "n")]] if kind.startswith("one holder") else [[("varint", "n")], [("string", "s")]]
                return None if got == want else f"nested records read back with the field lists {got}, written with {want}"
            if kind == "rotating writer: every file is a stream of its own":
                # a writer that moves on to another file (time-templated archiving): each file it leaves behind holds the definitions of the types of ITS records,
                # also of a type the same writer had written to an earlier file
                import datetime as _dtm

                it.vfs, it.vfs_auto, it.vfs_events, it.vfs_dirs = {}, True, [], set()
                it.clock = [_dtm.datetime(2024, 5, 6, 7, 8, 9, tzinfo=_dtm.timezone.utc) + _dtm.timedelta(seconds=i) for i in range(12)]
                hours = [_dtm.datetime(2017, 12, 6, h, 10, tzinfo=_dtm.timezone.utc) for h in (20, 21, 22)]
                w = it.call(st.g["PathTemplateWriter"], ["/abs/arch/{name}-{ts:%Y%m%dT%H}.records"], {"name": "t"})
                for i, g in enumerate(hours):
                    it.call(it.getattr_(w, "write"), [it.call(A, [], {"n": i, "_generated": g})], {})
                    it.call(it.getattr_(w, "write"), [it.call(N, [], {"r": it.call(A2, [], {"s": "x"}), "rs": [], "_generated": g})], {})
                it.call(it.getattr_(w, "close"), [], {})
                sa_ = L.import_module("flow.record.adapter.stream")
                for path in sorted(it.vfs):
                    try:
                        names_ = [it.getattr_(it.getattr_(o, "_desc"), "name") for o in it.iterate(it.call(sa_.g["StreamReader"], [path], {}))]
                    except PyRaise as e:
                        return f"{path} cannot be read on its own: {e.cls_name}: {e}"
                    if names_ != ["c03/a", "c03/nest"]:
                        return f"{path} holds records of the types {names_}, written: c03/a, c03/nest"
                return None if len(it.vfs) == 3 else f"{len(it.vfs)} files for three hours"
            if kind == "grouped record held by a record field":
                # a grouped record as the VALUE of a record / record[] field: its member types are defined in front of the holder's frame like every other nested type
                g_in = it.call(GR, ["c03/gin", [a, b]], {})
                holder = it.call(N, [], {"r": g_in, "rs": [it.call(GR, ["c03/gin2", [a2]], {})]})
                fp, w, events = mk(None)
                it.call(it.getattr_(w, "write"), [holder], {})
                fp2 = list(fp.content())
                rdr = it.call(st.g["RecordStreamReader"], [AbsFile(it, fp2)], {})
                try:
                    out = list(it.iterate(rdr))
                except PyRaise as e:
                    return f"the stream cannot be read back: {e.cls_name}: {e}"
                if len(out) != 1:
                    return f"{len(out)} record(s) read back, 1 written"
                inner = it.getattr_(out[0], "r")
                got = [it.getattr_(it.getattr_(m_, "_desc"), "name") for m_ in it.getattr_(inner, "records")] if it.type_name(inner) == "GroupedRecord" else it.type_name(inner)
                return None if got == ["c03/a", "c03/b"] else f"the grouped record inside the holder came back as {got!r}"
            if kind == "a record type without fields":
                # a record type may have no fields of its own (a marker record, a projection that excluded everything): its definition is emitted and found again like any other
                E = it.call(RD, ["c03/empty", []], {})
                fp, w, events = mk(None)
                recs = [it.call(E, [], {}), a, it.call(N, [], {"r": it.call(E, [], {}), "rs": []}), it.call(E, [], {})]
                for r in recs:
                    it.call(it.getattr_(w, "write"), [r], {})
                bad = well_ordered(events(), [])
                if bad:
                    return bad
                if fmt == "stream":
                    rdr = it.call(st.g["RecordStreamReader"], [AbsFile(it, fp.content())], {})
                else:
                    rdr = it.call(jf.g["JsonfileReader"], [AbsFile(it, fp.content(), mode="r")], {})
                got = [it.getattr_(it.getattr_(o, "_desc"), "name") for o in it.iterate(rdr)]
                return None if got == ["c03/empty", "c03/a", "c03/nest", "c03/empty"] else f"records read back as {got}, written: c03/empty, c03/a, c03/nest, c03/empty"
            if kind == "grouped records of different shapes, flattened":
                # every grouped record is an instance of one Python class; which definition a line needs is decided by ITS flat descriptor
                P = it.call(RD, ["c03/p", [("varint", "n")]], {})
                Q = it.call(RD, ["c03/q", [("string", "country")]], {})
                gs = [it.call(GR, ["c03/grp", [it.call(P, [], {"n": 1}), b]], {}), it.call(GR, ["c03/grp", [b, it.call(P, [], {"n": 2})]], {}), it.call(GR, ["c03/grp2", [it.call(Q, [], {"country": "nl"}), it.call(P, [], {"n": 3})]], {}),
                      it.call(GR, ["c03/grp", [it.call(P, [], {"n": 4}), b]], {})]
                want = [(it.getattr_(it.getattr_(g, "_desc"), "name"), [tuple(f) for f in it.call(it.getattr_(it.getattr_(g, "_desc"), "get_field_tuples"), [], {})]) for g in gs]
                fp, w, events = mk(None)
                for g in gs:
                    it.call(it.getattr_(w, "write"), [g], {})
                ev = events()
                bad = well_ordered(ev, [])
                if bad:
                    return bad
                rdr = it.call(jf.g["JsonfileReader"], [AbsFile(it, fp.content(), mode="r")], {})
                out = list(it.iterate(rdr))
                got = [(it.getattr_(it.getattr_(o, "_desc"), "name"), [tuple(f) for f in it.call(it.getattr_(it.getattr_(o, "_desc"), "get_field_tuples"), [], {})]) for o in out]
                return None if got == want else f"grouped records read back with descriptors {got}, written with {want}"
            if kind == "two writers":
                fp1, w1, ev1 = mk(None)
                fp2, w2, ev2 = mk(None)
                if it.getattr_(it.getattr_(w1, "packer"), "descriptors") is it.getattr_(it.getattr_(w2, "packer"), "descriptors") or it.getattr_(w1, "packer") is it.getattr_(w2, "packer"):
                    return "two writers share one registry object"
                for w in (w1, w2, w1, w2):
                    it.call(it.getattr_(w, "write"), [a], {})
                    it.call(it.getattr_(w, "write"), [a2], {})
                for ev in (ev1(), ev2()):
                    bad = well_ordered(ev, [])
                    if bad:
                        return "with two writers open at the same time: " + bad
                    if [e[0] for e in ev if e[0] != "DESC"] != ["REC"] * 4 or not any(e[0] == "DESC" for e in ev):
                        return f"each writer writes its four records, every type defined before its first record: {[e[0] for e in ev]}"  # (a definition emitted again is harmless)
                return None
            if kind == "frame":
                reg = arb_registry(absent=[ident(A), ident(N), ident(B), ident(A2)], default=A2)
                fp, w, events = mk(reg)
                n = it.call(N, [], {"r": a, "rs": [a2, b]})
                before = len(it.writes)
                shared = [A, A2, B, N, a, a2, b, n]
                it.call(it.getattr_(w, "write"), [n], {})
                bad = [(o.cls.name, attr) for (o, attr) in it.writes[before:] if any(o is s_ for s_ in shared) and attr not in CACHE_ATTRS]
                classes = [(o.name, attr) for (o, attr) in it.writes[before:] if isinstance(o, PClass)]
                return None if not bad and not classes else f"writing a record stores state outside the packer's own registry: {bad + classes}"
            raise KeyError(kind)
        return th

    KINDS = ["new type", "known type", "same name registered", "nested, nothing known", "nested, holder known", "nested, inner known", "grouped, nothing known", "grouped, one member known", "grouped, same names registered", "grouped twice, other members", "same hash text, other name", "write refused while packing, caller carries on", "names that differ only in '/' and '_'", "declared with byte strings", "two writers", "frame", "a record type without fields", "grouped records of different shapes, flattened", "one holder with two same-name types, read back", "grouped record of two same-name types, read back", "rotating writer: every file is a stream of its own", "grouped record held by a record field"]
    for fmt in ("stream", "json"):
        for kind in KINDS:
            if fmt == "json" and kind.startswith("grouped") and "flattened" not in kind or fmt == "stream" and "flattened" in kind:
                continue
            if fmt == "json" and (kind.startswith("grouped record of two") or kind.startswith("rotating writer") or kind.startswith("grouped record held")):
                continue  # the JSON packer flattens grouped records into one object of the flat type (C14)
            name = f"C03.write[{fmt}, {kind}]"
            pack.add(Obligation(name, lambda tier, name=name, kind=kind, fmt=fmt: prove_paths(name, scenario(kind, fmt), lambda p: (p.value is None, str(p.value)), lambda m_, p: {}, allow_raise=("UnicodeEncodeError", "error")),
                                replay=lambda w, kind=kind, fmt=fmt: {"call": "c03_scenario", "args": {"kind": kind, "fmt": fmt}}, functions=FU,
                                mode="invariant step: one write from an arbitrary registry (symbolic dictionary); member / handler loops unrolled over the concrete record"))

    # ------------------------------------------------------------------ readers
    def th_reader_stream():
        A, A2, B, N = descs()
        reg = arb_registry(present=[(ident(A), A), ("c03/a", A)], default=B)
        it.loop_cut = {"RecordStreamReader.__iter__": 2}
        try:
            r2 = it.call(A2, [], {"s": SStr(sv)})
            fp, rd = reader_at_loop_head(it, st, frame_of(it, pk, A2) + frame_of(it, pk, r2) + [sym_tail(it)], reg)
            out, end = drain(it, it.call(it.getattr_(rd, "__iter__"), [], {}))
        finally:
            it.loop_cut = {}
        got = it.getitem(reg, ident(A2))
        return out, end, it.getitem(reg, ident(A)) is A, [tuple(f) for f in it.call(it.getattr_(got, "get_field_tuples"), [], {})], [[tuple(f) for f in it.call(it.getattr_(it.getattr_(o, "_desc"), "get_field_tuples"), [], {})] for o in out]

    def judge_reader(p):
        out, end, a_kept, newfields, outfields = p.value
        if len(out) != 1 or not a_kept or newfields != [("string", "s")] or outfields != [[("string", "s")]]:
            return False, f"a same-name definition arriving later: yielded {len(out)}, earlier identifier kept: {a_kept}, stored fields {newfields}, record rebuilt with {outfields}"
        return it.zstr(out[0].attrs["s"]) == sv, "value differs"

    pack.add(Obligation("C03.read[stream, same-name definition]", lambda tier: prove_paths("C03.read[stream, same-name definition]", th_reader_stream, judge_reader, lambda m_, p: {}, allow_raise=("UnicodeEncodeError", "error")),
                        replay=lambda w: {"call": "c03_scenario", "args": {"kind": "same name registered", "fmt": "stream"}}, functions=FU, mode="invariant (loop cut after two iterations, arbitrary registry)"))

    def th_reader_unknown():
        A, A2, B, N = descs()
        reg = arb_registry(present=[(ident(A2), A2)], absent=[ident(A)], default=A2)  # the bare name may be registered, this identifier is not
        it.loop_cut = {"RecordStreamReader.__iter__": 1}
        try:
            fp, rd = reader_at_loop_head(it, st, frame_of(it, pk, it.call(A, [], {"n": 5})) + [sym_tail(it)], reg)
            out, end = drain(it, it.call(it.getattr_(rd, "__iter__"), [], {}))
        finally:
            it.loop_cut = {}
        return len(out), end if isinstance(end, str) else end[:2]

    pack.add(Obligation("C03.read[stream, identifier not registered]", lambda tier: prove_paths("C03.read[stream, identifier not registered]", th_reader_unknown,
                        lambda p: (p.value[0] == 0 and p.value[1] != "cut", f"a record whose identifier is not registered (only a same-name type is) was decoded: yielded {p.value[0]}, ended {p.value[1]}"), lambda m_, p: {}),
                        replay=lambda w: {"call": "c04_unknown_identifier", "args": {}}, functions=FU, mode="invariant (loop cut, arbitrary registry)"))

    def th_reader_json():
        A, A2, B, N = descs()
        a = it.call(A, [], {"n": SInt(x)})
        a2 = it.call(A2, [], {"s": SStr(sv)})
        n = it.call(N, [], {"r": a, "rs": [a2]})
        fp, w, events = json_writer(None)
        for r in (a, a2, a, n, a2):
            it.call(it.getattr_(w, "write"), [r], {})
        rd = it.call(jf.g["JsonfileReader"], [AbsFile(it, fp.content(), mode="r")], {})
        out = list(it.iterate(rd))
        fields = [[tuple(f) for f in it.call(it.getattr_(it.getattr_(o, "_desc"), "get_field_tuples"), [], {})] for o in out]
        inner = it.getattr_(out[3], "r") if len(out) > 3 else None
        return fields, inner is not None and isinstance(inner, PObj) and [tuple(f) for f in it.call(it.getattr_(it.getattr_(inner, "_desc"), "get_field_tuples"), [], {})]

    pack.add(Obligation("C03.read[json, history a a2 a nest a2]", lambda tier: prove_paths("C03.read[json, history a a2 a nest a2]", th_reader_json,
                        lambda p: (p.value[0] == [[("varint", "n")], [("string", "s")], [("varint", "n")], [("record", "r"), ("record[]", "rs")], [("string", "s")]], f"records read back with descriptors {p.value[0]!r}"), lambda m_, p: {}, allow_raise=("UnicodeEncodeError", "error")),
                        replay=lambda w: {"call": "c03_history_sweep", "args": {"seed": 0, "n": 5}}, functions=FU, mode="one concrete history (unrolled) with symbolic values"))

    # ------------------------------------------------------------------ identifier coincidence (known finding)
    def th_coincidence():
        D1 = it.call(RD, ["c03/t", [("stringlist", "a"), ("string", "b")]], {})
        D2 = it.call(RD, ["c03/t", [("string", "a"), ("string", "listb")]], {})
        r1 = it.call(D1, [], {"a": ["x"], "b": "y"})
        r2 = it.call(D2, [], {"a": "x", "listb": "y"})
        fp, w, events = stream_writer(None)
        it.call(it.getattr_(w, "write"), [r1], {})
        it.call(it.getattr_(w, "write"), [r2], {})
        rd = it.call(st.g["RecordStreamReader"], [AbsFile(it, fp.content())], {})
        out, end = drain(it, it.call(it.getattr_(rd, "__iter__"), [], {}))
        return [[tuple(f) for f in it.call(it.getattr_(it.getattr_(o, "_desc"), "get_field_tuples"), [], {})] for o in out], end if isinstance(end, str) else end[:2]

    pack.add(Obligation("C03.coincidence", lambda tier: prove_paths("C03.coincidence", th_coincidence, lambda p: (p.value[0] == [[("stringlist", "a"), ("string", "b")], [("string", "a"), ("string", "listb")]],
                        f"two distinct descriptors with the same identifier: the second record is read back as {p.value!r}"), lambda m_, p: {}, allow_raise=None),
                        replay=lambda w: {"call": "c03_coincidence", "args": {}}, functions=FU, mode="witness pair from the hash-input concatenation"))

    # ------------------------------------------------------------------ canary / conformance / bounded
    def run_canary(tier):
        def th():
            A, A2, B, N = descs()
            a = it.call(A, [], {"n": 1})
            reg = arb_registry(default=A2)  # deliberately NOT assuming that the identifier is absent: then no definition need be emitted
            fp, w, events = stream_writer(reg)
            it.call(it.getattr_(w, "write"), [a], {})
            return [e[0] for e in events()] == ["DESC", "REC"]
        return prove_paths("C03.canary", th, lambda p: (p.value is True, "canary"), lambda m_, p: {})

    pack.add(Obligation("C03.canary", run_canary, kind="canary"))

    def run_cross(tier):
        res = native_replay({"call": "c03_model_conformance", "args": {}})
        return Result("C03.cross", "proved" if res.get("ok") else "refuted", str(res.get("detail") or res.get("error") or "")[:300], paths=res.get("cases", 0))

    pack.add(Obligation("C03.cross", run_cross, kind="cross"))

    def run_sweep(tier):
        args = {"seed": seed, "n": 80 if tier == "quick" else 1500}
        res = native_replay({"call": "c03_history_sweep", "args": args}, timeout=3000)
        r = Result("C03.history_sweep", "refuted" if res.get("violates") else ("proved" if "error" not in res else "error"), str(res.get("detail") or res.get("error") or "")[:300], paths=res.get("cases", 0))
        r.native, r.confirmed, r.request, r.witness = res, bool(res.get("violates")), {"call": "c03_history_sweep", "args": args}, res.get("witness")
        return r

    pack.add(Obligation("C03.history_sweep", run_sweep, kind="bounded", note="native run: random write histories (same-name types, nested, grouped; one writer or two interleaved writers, writers dropped and re-created) to the binary stream and JSON lines; "
                        "the frame/line sequence is decoded by the reference codec (definition before first use) and every record read back must carry the descriptor it was created with; bound 80 (quick) / 1500 (thorough) histories of up to 8 writes", functions=FU))
    pack.loop_modes = {"write history": "induction: one write step from an arbitrary registry (symbolic dictionary) satisfying the invariant", "RecordStreamReader.__iter__": "loop cut (invariant mode)",
                       "loops over grouped members / nested values / handlers": "unrolled over the concrete record shape (3 members, 1 + 2 nested)"}
    pack.assumptions += ["NoCoincidence on the 'known type' step: the registry maps the identifier to the record's own descriptor (its failure is the known finding C03.coincidence)", "msgpack tree model, json tree model, file contract"]
    pack.not_covered = ["the Avro / SQLite / CSV writers have no descriptor registry (one schema per file / table: C18, C19)", "object identity reuse by the allocator (id()) is not modelled; state outside the registry is excluded by the frame obligation instead"]
    return pack

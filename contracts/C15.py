"""C15 - record composition follows the documented precedence rules.

Contracts on the real merge_record_descriptors, extend_record, iter_timestamped_records, GroupedRecord, RecordFieldRewriter (base.py / stream.py) against a
dictionary-based reference model written from the property statement:

  merge / extend   fields == the first record's fields in order, then unseen fields of later records in order of first appearance; type and value of a field come from the
                   FIRST record that has it (from the LAST one with replace=True; the position stays that of the first appearance); originals are not written to
  timestamps       no timestamp field -> the record itself; otherwise one record per timestamp field f, in field order, with ts == original.f, ts_description == f's name and
                   every original field that is not itself called ts / ts_description kept with its value
  grouped          the flat descriptor is the union of the members' fields in order of first appearance, attribute access answers with the first member that has the field
  projection       RecordFieldRewriter keeps the requested fields in the requested order (unknown names skipped), drops excluded ones, leaves the values alone

Composition depends on field NAMES only through equality, so "all names" is decided by enumerating every equality pattern (set partition) of the name occurrences of a
shape (members x fields); every occurrence gets its own distinguishable type and a symbolic value, so the composed record tells which occurrence was taken.  Shapes are
bounded in WIDTH (stated per obligation), values are unbounded.
"""
import datetime as _dt
import itertools

import z3

from .streamlib import *  # noqa

INT_TYPES = ["varint", "filesize", "uint32", "unix_file_mode", "uint16", "net.tcp.Port", "net.udp.Port"]  # all accept 0..65535: the type of the result names the occurrence taken


def partitions(n):
    """all set partitions of range(n) as label lists (restricted growth strings)"""
    def rec(i, labels, mx):
        if i == n:
            yield list(labels)
            return
        for l_ in range(mx + 2):
            labels.append(l_)
            yield from rec(i + 1, labels, max(mx, l_))
            labels.pop()
    yield from rec(0, [], -1)


def spec_merge(fields_list, replace):
    fm = {}
    for fields in fields_list:
        for t, n in fields:
            if n in fm and not replace:
                continue
            fm[n] = t
    return [(t, n) for n, t in fm.items()]


def spec_value_owner(fields_list, replace, name):
    owners = [i for i, fields in enumerate(fields_list) if any(n == name for _, n in fields)]
    return owners[-1] if replace else owners[0]


def build(tier="quick", seed=0):
    it, L, base, pk, st = mods()
    pack = new_pack("C15", "Record composition follows the documented precedence rules")
    RD, GR = base.g["RecordDescriptor"], base.g["GroupedRecord"]
    FU = ("flow.record.base:merge_record_descriptors", "flow.record.base:extend_record", "flow.record.base:iter_timestamped_records", "flow.record.base:GroupedRecord.__init__", "flow.record.base:GroupedRecord.__getattr__",
          "flow.record.base:GroupedRecord.__setattr__", "flow.record.base:GroupedRecord._asdict", "flow.record.base:RecordDescriptor.init_from_dict", "flow.record.base:RecordDescriptor.getfields", "flow.record.base:Record._asdict",
          "flow.record.stream:RecordFieldRewriter.rewrite", "flow.record.stream:RecordFieldRewriter.record_descriptor_for_fields")
    NAMES = ["a", "b", "c", "d", "e", "f"]
    vals = [z3.Int(f"v{i}") for i in range(8)]

    def fields_of(D):
        return [tuple(f) for f in it.call(it.getattr_(D, "get_field_tuples"), [], {})]

    # ------------------------------------------------------------------ merge / extend over every name-equality pattern of a shape
    def shapes_extend():
        # (descriptor index of each record, fields per descriptor)
        return [("2 records x 2 fields", [0, 1], 2), ("3 records x 1 field", [0, 1, 2], 1), ("records A B A (one descriptor twice) x 2 fields", [0, 1, 0], 2), ("records A A x 2 fields", [0, 0], 2), ("3 records x 2 fields", [0, 1, 2], 2)]

    def run_extend(shape, replace, rename):
        label, rec_desc, k = shape
        ndesc = max(rec_desc) + 1

        def run(tier):
            total = 0
            for labels in partitions(ndesc * k):
                per_desc = [labels[d * k:(d + 1) * k] for d in range(ndesc)]
                if any(len(set(p)) != k for p in per_desc):
                    continue  # names inside one descriptor are distinct
                desc_fields = [[(INT_TYPES[(d * k + j) % len(INT_TYPES)], NAMES[per_desc[d][j]]) for j in range(k)] for d in range(ndesc)]

                def th(desc_fields=desc_fields):
                    for v in vals:
                        it.assume(z3.And(v >= 0, v <= 65535))
                    Ds = [it.call(RD, [f"c15/d{d}", list(f)], {}) for d, f in enumerate(desc_fields)]
                    recs = []
                    for ri, d in enumerate(rec_desc):
                        recs.append(it.call(Ds[d], [], {n: SInt(vals[(ri * k + j) % len(vals)]) for j, (_, n) in enumerate(desc_fields[d])}))
                    before = len(it.writes)
                    kw = {"replace": replace}
                    if rename:
                        kw["name"] = "c15/renamed"
                    out = it.call(base.g["extend_record"], [recs[0], recs[1:]], kw)
                    wrote = [(o.cls.name, a) for (o, a) in it.writes[before:] if any(o is r for r in recs)]
                    merged = it.call(base.g["merge_record_descriptors"], [tuple(Ds[d] for d in rec_desc)], kw)
                    return fields_of(it.getattr_(out, "_desc")), it.getattr_(it.getattr_(out, "_desc"), "name"), {n: out.attrs.get(n) for _, n in fields_of(it.getattr_(out, "_desc"))}, wrote, fields_of(merged)

                def judge(p, desc_fields=desc_fields):
                    got_fields, got_name, got_vals, wrote, merged_fields = p.value
                    per_record = [desc_fields[d] for d in rec_desc]
                    want = spec_merge(per_record, replace)
                    if got_fields != want or merged_fields != want:
                        return False, f"records with fields {per_record} (replace={replace}): composed fields {got_fields} / merged descriptor {merged_fields}, the rule gives {want}"
                    if got_name != ("c15/renamed" if rename else "c15/d0"):
                        return False, f"composed record is named {got_name!r}"
                    if wrote:
                        return False, f"the originals were modified: {wrote}"
                    conj = []
                    for t, n in want:
                        ri = spec_value_owner(per_record, replace, n)
                        j = [nm for _, nm in per_record[ri]].index(n)
                        v = got_vals[n]
                        if it.type_name(v) != t.split(".")[-1] and it.type_name(v) != {"net.tcp.Port": "port", "net.udp.Port": "port"}.get(t, t):
                            return False, f"field {n} holds a {it.type_name(v)}, the rule gives type {t}"
                        conj.append(it.zint(v) == vals[(ri * k + j) % len(vals)])
                    return z3.And(*conj) if conj else True, f"records {per_record} (replace={replace}): a value is not the one of the {'last' if replace else 'first'} record that has the field"

                r = prove_paths("x", th, judge, lambda m_, p, desc_fields=desc_fields: {"fields": [desc_fields[d] for d in rec_desc], "replace": replace, "rename": rename})
                total += r.paths
                if r.status != "proved":
                    r.paths = total
                    return r
            return Result("x", "proved", paths=total)
        return run

    for shape in shapes_extend():
        if tier == "quick" and shape[0] == "3 records x 2 fields":
            continue
        for replace in (False, True):
            for rename in (False, True):
                if rename and shape[0] not in ("2 records x 2 fields",):
                    continue
                name = f"C15.extend[{shape[0]}, replace={replace}{', renamed' if rename else ''}]"
                pack.add(Obligation(name, run_extend(shape, replace, rename), replay=lambda w: {"call": "c15_extend", "args": {"fields": w.get("fields"), "replace": bool(w.get("replace")), "rename": bool(w.get("rename"))}}, functions=FU,
                                    mode="bounded-width shape, EVERY equality pattern of the field names, distinguishable types, symbolic values"))
    pack.case_analyses.append("extend / merge: shapes up to 3 records x 2 fields (3 x 2 only in the thorough tier); within a shape every set partition of the name occurrences is enumerated")

    # ------------------------------------------------------------------ per-timestamp expansion
    TS_NAMES = ["a", "ts", "ts_description", "b"]
    DTV = [_dt.datetime(2001, 1, 1, tzinfo=_dt.timezone.utc), _dt.datetime(2002, 2, 2, tzinfo=_dt.timezone.utc), _dt.datetime(2003, 3, 3, tzinfo=_dt.timezone.utc)]

    def run_ts(width):
        def run(tier):
            total = 0
            for names in itertools.permutations(TS_NAMES, width):
                for kinds in itertools.product(("datetime", "varint", "string"), repeat=width):
                    if kinds.count("datetime") == 0 and (width > 1 or names[0] != "a"):
                        continue
                    fields = list(zip(kinds, names))

                    def th(fields=fields):
                        D = it.call(RD, ["c15/ts", list(fields)], {})
                        kw = {}
                        for i, (t, n) in enumerate(fields):
                            kw[n] = DTV[i] if t == "datetime" else SInt(vals[i]) if t == "varint" else f"text{i}"
                        rec = it.call(D, [], kw)
                        before = len(it.writes)
                        out = list(it.iterate(it.call(base.g["iter_timestamped_records"], [rec], {})))
                        wrote = [(o.cls.name, a) for (o, a) in it.writes[before:] if o is rec]
                        return rec, out, [fields_of(it.getattr_(o, "_desc")) for o in out], wrote

                    def judge(p, fields=fields):
                        rec, out, out_fields, wrote = p.value
                        dts = [(i, n) for i, (t, n) in enumerate(fields) if t == "datetime"]
                        if wrote:
                            return False, f"the original record was modified: {wrote}"
                        if not dts:
                            if len(out) != 1:
                                return False, f"a record without timestamp fields: {len(out)} records come out"
                            if out[0] is rec:
                                return True
                            same_ = [it.zint(out[0].attrs.get(m)) == it.zint(rec.attrs[m]) if t == "varint" else it.unbase(out[0].attrs.get(m)) == it.unbase(rec.attrs[m]) for t, m in fields]
                            if any(x_ is False for x_ in same_):
                                return False, "a record without timestamp fields comes out changed"
                            zs = [x_ for x_ in same_ if x_ is not True]
                            return (z3.And(*zs) if zs else True), "a record without timestamp fields comes out changed"  # (the same record or an indistinguishable copy)
                        if len(out) != len(dts):
                            return False, f"{len(dts)} timestamp fields, {len(out)} records"
                        conj = []
                        for (i, n), o in zip(dts, out):
                            if it.unbase(o.attrs.get("ts")) != DTV[i] or it.unbase(o.attrs.get("ts_description")) != n:
                                return False, f"record of fields {fields}: expansion for field {n!r} has ts={it.unbase(o.attrs.get('ts'))!r} ts_description={it.unbase(o.attrs.get('ts_description'))!r}, the original holds {DTV[i]!r}"
                            for j, (t, m) in enumerate(fields):
                                if m in ("ts", "ts_description"):
                                    continue
                                if m not in o.attrs:
                                    return False, f"original field {m} is missing from the expansion"
                                v = o.attrs[m]
                                if t == "varint":
                                    conj.append(it.zint(v) == vals[j])
                                elif it.unbase(v) != (DTV[j] if t == "datetime" else f"text{j}"):
                                    return False, f"original field {m} changed to {it.unbase(v)!r}"
                        return (z3.And(*conj) if conj else True), "an original value changed"

                    r = prove_paths("x", th, judge, lambda m_, p, fields=fields: {"fields": [list(f) for f in fields]})
                    total += r.paths
                    if r.status != "proved":
                        r.paths = total
                        return r
            return Result("x", "proved", paths=total)
        return run

    for width in (1, 2, 3):
        name = f"C15.timestamps[{width} field(s) named from a / ts / ts_description / b, every type assignment]"
        pack.add(Obligation(name, run_ts(width), replay=lambda w: {"call": "c15_timestamps", "args": {"fields": w.get("fields")}}, functions=FU, mode="bounded width, every ordered choice of names incl. ts / ts_description and every assignment of datetime / varint / string"))

    # a timestamp field that is unset still gets its record (ts is None): one record per timestamp FIELD, nothing disappears
    for label, setv in (("both unset", {}), ("first set, second unset", {"a": DTV[0]}), ("first unset, second set", {"b": DTV[1]})):
        name = f"C15.timestamps.unset[{label}]"

        def th_unset(setv=setv):
            D = it.call(RD, ["c15/ts", [("datetime", "a"), ("string", "s"), ("datetime", "b")]], {})
            rec = it.call(D, [], dict(setv, s="kept"))
            out = list(it.iterate(it.call(base.g["iter_timestamped_records"], [rec], {})))
            return [(it.unbase(o.attrs.get("ts")), it.unbase(o.attrs.get("ts_description")), it.unbase(o.attrs.get("s")), it.unbase(o.attrs.get("a")), it.unbase(o.attrs.get("b"))) for o in out]

        want = [(setv.get("a"), "a", "kept", setv.get("a"), setv.get("b")), (setv.get("b"), "b", "kept", setv.get("a"), setv.get("b"))]
        pack.add(Obligation(name, lambda tier, name=name, th_unset=th_unset, want=want: prove_paths(name, th_unset, lambda p, want=want: (p.value == want, f"expansion of a record with unset timestamp fields: {p.value}, expected one record per timestamp field: {want}")),
                            replay=lambda w, setv=setv: {"call": "c15_ts_unset", "args": {"which": sorted(setv)}}, functions=FU, mode="the three placements of unset timestamp fields"))

    # a record's own field named 'ts' / 'ts_description' collides with the two fields the expansion adds: "keeps all original non-metadata fields" cannot hold for it
    for ft, fname in (("string", "ts"), ("string", "ts_description"), ("datetime", "ts")):
        name = f"C15.timestamps.collision[own {ft} field named {fname} next to a timestamp field 'created']"

        def th_col(ft=ft, fname=fname):
            D = it.call(RD, ["c15/ts", [(ft, fname), ("datetime", "created")]], {})
            own = DTV[0] if ft == "datetime" else "own text"
            rec = it.call(D, [], {fname: own, "created": DTV[1]})
            out = list(it.iterate(it.call(base.g["iter_timestamped_records"], [rec], {})))
            exp = [o for o in out if it.unbase(o.attrs.get("ts_description")) == "created" or it.unbase(o.attrs.get("ts")) == DTV[1]]
            return own, [it.unbase(o.attrs.get(fname)) for o in exp], len(out)

        pack.add(Obligation(name, lambda tier, name=name, th_col=th_col, fname=fname: prove_paths(name, th_col, lambda p: (bool(p.value[1]) and all(v == p.value[0] for v in p.value[1]), f"the expansion for 'created' holds {fname}={p.value[1]!r}, the original record holds {p.value[0]!r}")),
                            replay=lambda w, ft=ft, fname=fname: {"call": "c15_ts_collision", "args": {"ftype": ft, "fname": fname}}, functions=FU, mode="the colliding names"))

    # ------------------------------------------------------------------ grouped records
    def run_grouped(nmem, k):
        def run(tier):
            total = 0
            for labels in partitions(nmem * k):
                per = [labels[d * k:(d + 1) * k] for d in range(nmem)]
                if any(len(set(p)) != k for p in per):
                    continue
                mfields = [[(INT_TYPES[(d * k + j) % len(INT_TYPES)], NAMES[per[d][j]]) for j in range(k)] for d in range(nmem)]

                def th(mfields=mfields):
                    for v in vals:
                        it.assume(z3.And(v >= 0, v <= 65535))
                    members = []
                    for d, f in enumerate(mfields):
                        D = it.call(RD, [f"c15/m{d}", list(f)], {})
                        members.append(it.call(D, [], {n: SInt(vals[d * k + j]) for j, (_, n) in enumerate(f)}))
                    g = it.call(GR, ["c15/grp", members], {})
                    names = list(dict.fromkeys(n for f in mfields for _, n in f))
                    got = {n: it.getattr_(g, n) for n in names}
                    try:
                        it.getattr_(g, "nosuchfield")
                        missing = "answered"
                    except PyRaise as e:
                        missing = e.cls_name
                    ad = it.call(it.getattr_(g, "_asdict"), [], {})
                    sel_names = names[::-1][:2]  # (a selection in another order: the dictionary follows the selection)
                    ad_sel = it.call(it.getattr_(g, "_asdict"), [], {"fields": list(sel_names)})
                    return fields_of(it.getattr_(g, "_desc")), got, missing, list(ad.keys()), dict(ad), (list(sel_names), list(ad_sel.keys()), dict(ad_sel))

                def judge(p, mfields=mfields):
                    flat, got, missing, keys, ad, (sel_names, sel_keys, ad_sel) = p.value
                    want = spec_merge(mfields, False)
                    if sel_keys != sel_names:
                        return False, f"_asdict(fields={sel_names}) has the keys {sel_keys}"
                    if flat != want:
                        return False, f"members {mfields}: flat descriptor {flat}, the rule gives {want}"
                    if missing != "AttributeError":
                        return False, f"an unknown attribute: {missing}"
                    if [k_ for k_ in keys if not k_.startswith("_")] != [n for _, n in want]:
                        return False, f"_asdict keys {keys}"
                    conj = []
                    for t, n in want:
                        d = spec_value_owner(mfields, False, n)
                        j = [nm for _, nm in mfields[d]].index(n)
                        conj.append(it.zint(got[n]) == vals[d * k + j])
                        conj.append(it.zint(ad[n]) == vals[d * k + j])  # the dictionary view shows the same value as the attribute
                        if n in ad_sel:
                            conj.append(it.zint(ad_sel[n]) == vals[d * k + j])
                    return z3.And(*conj), f"members {mfields}: an attribute / _asdict() entry does not answer with the first member that has the field"

                r = prove_paths("x", th, judge, lambda m_, p, mfields=mfields: {"members": mfields})
                total += r.paths
                if r.status != "proved":
                    r.paths = total
                    return r
            return Result("x", "proved", paths=total)
        return run

    for nmem, k in ((2, 2), (3, 1), (3, 2)):
        if tier == "quick" and (nmem, k) == (3, 2):
            continue
        name = f"C15.grouped[{nmem} members x {k} field(s)]"
        pack.add(Obligation(name, run_grouped(nmem, k), replay=lambda w: {"call": "c15_grouped", "args": {"members": w.get("members")}}, functions=FU, mode="bounded-width shape, every equality pattern of the field names, symbolic values"))

    # replace-style copy of a grouped record: only the named field changes - in the flat view AND in the members (which are what is written to a stream)
    def th_grp_replace(named):
        def th():
            A = it.call(RD, ["c15/ma", [("string", "x"), ("varint", "n")]], {})
            B = it.call(RD, ["c15/mb", [("string", "x"), ("string", "y")]], {})
            a = it.call(A, [], {"x": "ax", "n": SInt(vals[0]), "_source": "sa"})
            b = it.call(B, [], {"x": "bx", "y": "by", "_source": "sb"})
            g = it.call(GR, ["c15/grp", [a, b]], {})
            before = len(it.writes)
            g2 = it.call(it.getattr_(g, "_replace"), [], dict(named))
            wrote = [(o.cls.name, at) for (o, at) in it.writes[before:] if o is a or o is b]
            ms = it.getattr_(g2, "records")
            obs = [{k_: m.attrs.get(k_) for k_ in ("x", "n", "y", "_source") if k_ in m.attrs} for m in ms]
            return obs, wrote

        return th

    def judge_grp_replace(named):
        def judge(p):
            obs, wrote = p.value
            if wrote:
                return False, f"the members of the original group were modified: {wrote}"
            want = [{"x": "ax", "n": None, "_source": "sa"}, {"x": "bx", "y": "by", "_source": "sb"}]
            for k_, v in named.items():
                next(m for m in want if k_ in m)[k_] = v  # the first member that has the field
            if len(obs) != 2:
                return False, f"{len(obs)} members"
            conj = []
            for got, w_ in zip(obs, want):
                for k_, v in w_.items():
                    if k_ == "n":
                        conj.append(it.zint(got.get("n")) == vals[0])
                    elif it.unbase(got.get(k_)) != v:
                        return False, f"_replace({named}): member field {k_} is {it.unbase(got.get(k_))!r}, expected {v!r}"
            return z3.And(*conj), "member field n changed"
        return judge

    for named in ({}, {"y": "new"}, {"x": "new"}, {"_source": "new"}):
        name = f"C15.grouped.replace[{', '.join(named) or 'no field named'}]"
        pack.add(Obligation(name, lambda tier, name=name, named=named: prove_paths(name, th_grp_replace(named), judge_grp_replace(named)), replay=lambda w, named=named: {"call": "c15_grouped_replace", "args": {"named": named}}, functions=FU,
                            mode="two members that share a field name and hold different values"))

    # a grouped record is a VIEW of its members: what it shows follows the members, also after it was read once
    def th_grp_view():
        A = it.call(RD, ["c15/ma", [("string", "x"), ("varint", "n")]], {})
        B = it.call(RD, ["c15/mb", [("string", "y")]], {})
        a = it.call(A, [], {"x": "old", "n": SInt(vals[0])})
        g = it.call(GR, ["c15/grp", [a, it.call(B, [], {"y": "why"})]], {})
        first = it.unbase(it.getattr_(g, "x"))
        it.setattr_(a, "x", "new")  # the member is assigned directly
        second = it.unbase(it.getattr_(g, "x"))
        asd = it.unbase(it.call(it.getattr_(g, "_asdict"), [], {}).get("x"))
        ext = it.call(base.g["extend_record"], [g, []], {})
        it.setattr_(g, "x", "through the view")
        return first, second, asd, it.unbase(ext.attrs.get("x")), it.unbase(a.attrs["x"]), it.unbase(it.getattr_(g, "x"))

    pack.add(Obligation("C15.grouped.view[read, member assigned, read again]", lambda tier: prove_paths("C15.grouped.view[read, member assigned, read again]", th_grp_view,
                        lambda p: (p.value == ("old", "new", "new", "new", "through the view", "through the view"), f"g.x before / after the member was assigned / in _asdict() / in extend_record(g) / member after g.x = ... / g.x: {p.value}")),
                        replay=lambda w: {"call": "c15_grouped_view", "args": {}}, functions=FU, mode="concrete history on one grouped record"))

    # replace-style copies name fields by keyword: a field may be called like the method's own first parameter
    for kind in ("plain", "grouped"):
        name = f"C15.replace[a field named 'self', {kind} record]"

        def th_rself(kind=kind):
            S = it.call(RD, ["c15/rs", [("string", "self"), ("varint", "n")]], {})
            r = it.call(S, [], {"self": "old", "n": 4})
            src = r if kind == "plain" else it.call(base.g["GroupedRecord"], ["c15/rg", [r]], {})
            try:
                c = it.call(it.getattr_(src, "_replace"), [], {"self": "new"})
            except PyRaise as e:
                return "raise " + e.cls_name
            return it.unbase(it.getattr_(c, "self")), it.unbase(it.getattr_(c, "n")), it.unbase(it.getattr_(src, "self"))

        pack.add(Obligation(name, lambda tier, name=name, th_rself=th_rself: prove_paths(name, th_rself, lambda p: (p.value == ("new", 4, "old"), f"_replace(self='new') on a record with the fields self='old', n=4: {p.value!r} (copy.self, copy.n, original.self)")),
                            replay=lambda w, kind=kind: {"call": "c15_replace_self", "args": {"kind": kind}}, functions=FU + ("flow.record.base:Record._replace", "flow.record.base:GroupedRecord._replace"), mode="representative record"))

    # a copy into another descriptor (RecordDescriptor.init_from_record) takes the values of the fields both sides have - from a plain record and from a grouped one (its flat view, first member wins)
    x = z3.Int("copy_x")
    for kind in ("plain", "grouped", "grouped in grouped"):
        name = f"C15.copy[init_from_record, {kind} source]"

        def th_copy(kind=kind):
            A = it.call(RD, ["c15/ca", [("varint", "n"), ("string", "s")]], {})
            B = it.call(RD, ["c15/cb", [("string", "s"), ("string", "t")]], {})
            T = it.call(RD, ["c15/ct", [("string", "t"), ("varint", "n"), ("string", "zz")]], {})
            a = it.call(A, [], {"n": SInt(x), "s": "from a", "_source": "src-a", "_classification": "cls-a"})
            b = it.call(B, [], {"s": "from b", "t": "tee"})
            if kind == "plain":
                src, want = a, {"t": None, "n": ("sym", x), "zz": None}
            elif kind == "grouped":
                src, want = it.call(base.g["GroupedRecord"], ["c15/cg", [a, b]], {}), {"t": "tee", "n": ("sym", x), "zz": None}
            else:
                inner = it.call(base.g["GroupedRecord"], ["c15/ci", [a]], {})
                src, want = it.call(base.g["GroupedRecord"], ["c15/cg", [inner, b]], {}), {"t": "tee", "n": ("sym", x), "zz": None}
            r = it.call(it.getattr_(T, "init_from_record"), [src], {})
            return {k: it.unbase(r.attrs.get(k)) for k in ("t", "n", "zz", "_source", "_classification")}, want

        def judge_copy(p):
            got, want = p.value
            if got["_source"] != "src-a" or got["_classification"] != "cls-a" or got["t"] != want["t"] or got["zz"] is not None:
                return False, f"the copy holds {got!r}; the source has t={want['t']!r}, _source='src-a', _classification='cls-a'"
            n_ = got["n"]
            return (it.zint(n_) == x) if n_ is not None else False, f"the copy holds n={n_!r}, the source has the symbolic x"

        pack.add(Obligation(name, lambda tier, name=name, th_copy=th_copy, judge_copy=judge_copy: prove_paths(name, th_copy, judge_copy, lambda m_, p: {"x": model_value(m_, x)}), replay=lambda w, kind=kind: {"call": "c15_copy", "args": {"kind": kind, "x": w.get("x") if isinstance(w.get("x"), int) else 3}}, functions=FU + ("flow.record.base:RecordDescriptor.init_from_record", "flow.record.base:RecordDescriptor.init_from_dict"), mode="representative shapes, symbolic value"))

    # composition is decided by the descriptors' fields, also for two descriptors whose identifiers coincide (same name, same unseparated field text)
    def th_colliding():
        A = it.call(RD, ["c15/col", [("wstring", "x")]], {})
        B = it.call(RD, ["c15/col", [("string", "xw")]], {})
        Z = it.call(RD, ["c15/z", [("varint", "z")]], {})
        z = it.call(Z, [], {"z": 1})
        e1 = it.call(base.g["extend_record"], [it.call(A, [], {"x": "1"}), [z]], {})
        e2 = it.call(base.g["extend_record"], [it.call(B, [], {"xw": "2"}), [z]], {})
        rw = it.call(st.g["RecordFieldRewriter"], [], {"fields": ["x", "xw"]})
        p1 = it.call(it.getattr_(rw, "rewrite"), [it.call(A, [], {"x": "1"})], {})
        p2 = it.call(it.getattr_(rw, "rewrite"), [it.call(B, [], {"xw": "2"})], {})
        return fields_of(it.getattr_(e1, "_desc")), fields_of(it.getattr_(e2, "_desc")), it.unbase(e2.attrs.get("xw")), fields_of(it.getattr_(p1, "_desc")), fields_of(it.getattr_(p2, "_desc"))

    pack.add(Obligation("C15.extend.history[two descriptors whose identifiers coincide]", lambda tier: prove_paths("C15.extend.history[two descriptors whose identifiers coincide]", th_colliding,
                        lambda p: (p.value == ([("wstring", "x"), ("varint", "z")], [("string", "xw"), ("varint", "z")], "2", [("wstring", "x")], [("string", "xw")]), f"extended / projected descriptors {p.value}")),
                        replay=lambda w: {"call": "c15_colliding", "args": {}}, functions=FU, mode="concrete history through extend_record and one rewriter"))

    # extending a record TYPE (RecordDescriptor.extend): the type's fields in order, then the new ones in order, under the same name; the original type is unchanged
    def th_desc_extend():
        A = it.call(RD, ["c15/de", [("string", "a"), ("varint", "b")]], {})
        before = (fields_of(A), it.getattr_(A, "name"))
        E1 = it.call(it.getattr_(A, "extend"), [[("uint16", "c"), ("string[]", "d")]], {})
        E0 = it.call(it.getattr_(A, "extend"), [[]], {})
        r = it.call(E1, [], {"a": "x", "b": 2, "c": 3, "d": ["y"]})
        return (fields_of(E1), it.getattr_(E1, "name"), fields_of(E0), it.getattr_(E0, "name"), (fields_of(A), it.getattr_(A, "name")) == before, fields_of(A),
                [it.unbase(r.attrs.get(k)) if k != "d" else [it.unbase(v) for v in it.unbase(r.attrs.get(k))] for k in ("a", "b", "c", "d")])

    pack.add(Obligation("C15.extend.descriptor[RecordDescriptor.extend appends in order, same name, original unchanged]", lambda tier: prove_paths("C15.extend.descriptor[RecordDescriptor.extend appends in order, same name, original unchanged]", th_desc_extend,
                        lambda p: (p.value == ([("string", "a"), ("varint", "b"), ("uint16", "c"), ("string[]", "d")], "c15/de", [("string", "a"), ("varint", "b")], "c15/de", True, [("string", "a"), ("varint", "b")], ["x", 2, 3, ["y"]]),
                                   f"extended type / name / extended by nothing / name / original unchanged / original / a record of it: {p.value}")),
                        replay=lambda w: {"call": "c15_desc_extend", "args": {}}, functions=FU + ("flow.record.base:RecordDescriptor.extend",), mode="concrete history through RecordDescriptor.extend"))

    # a member field whose name is one of GroupedRecord's own attributes
    for fname in ("name", "records", "descriptors", "flat_fields"):
        name = f"C15.grouped.collision[member field named {fname}]"

        def th_gc(fname=fname):
            A = it.call(RD, ["c15/ma", [("string", fname), ("string", "x")]], {})
            g = it.call(GR, ["c15/grp", [it.call(A, [], {fname: "member value", "x": "ax"})]], {})
            return it.unbase(it.getattr_(g, fname)), it.unbase(it.call(it.getattr_(g, "_asdict"), [], {}).get(fname))

        pack.add(Obligation(name, lambda tier, name=name, th_gc=th_gc, fname=fname: prove_paths(name, th_gc, lambda p: (p.value == ("member value", "member value"), f"the group answers {fname}={p.value[0]!r} / _asdict()[{fname!r}]={p.value[1]!r}, the member holds 'member value'")),
                            replay=lambda w, fname=fname: {"call": "c15_grouped_collision", "args": {"fname": fname}}, functions=FU, mode="the colliding names"))

    # ------------------------------------------------------------------ projection / exclusion
    def run_rewrite(tier):
        total = 0
        RW = st.g["RecordFieldRewriter"]
        base_fields = [("varint", "a"), ("filesize", "b"), ("uint32", "c")]
        choices = [None] + [list(c) for r_ in (1, 2, 3) for c in itertools.permutations(["a", "b", "c", "zz"], r_)]
        excl = [None, ["a"], ["b", "zz"], ["a", "b", "c"]]
        for fsel in choices:
            for ex in excl:
                def th(fsel=fsel, ex=ex):
                    for v in vals[:3]:
                        it.assume(z3.And(v >= 0, v <= 65535))
                    D = it.call(RD, ["c15/rw", list(base_fields)], {})
                    rec = it.call(D, [], {"a": SInt(vals[0]), "b": SInt(vals[1]), "c": SInt(vals[2])})
                    rw = it.call(RW, [], {"fields": fsel, "exclude": ex})
                    before = len(it.writes)
                    out = it.call(it.getattr_(rw, "rewrite"), [rec], {})
                    wrote = [(o.cls.name, a) for (o, a) in it.writes[before:] if o is rec]
                    return out is rec, fields_of(it.getattr_(out, "_desc")), {n: out.attrs.get(n) for _, n in fields_of(it.getattr_(out, "_desc"))}, wrote, it.getattr_(it.getattr_(out, "_desc"), "name")

                def judge(p, fsel=fsel, ex=ex):
                    same, got_fields, got_vals, wrote, nm = p.value
                    exs = ex or []
                    if fsel:
                        want = [(dict((n, t) for t, n in base_fields)[n], n) for n in fsel if n in ("a", "b", "c") and n not in exs]
                    else:
                        want = [(t, n) for t, n in base_fields if n not in exs]
                    if wrote or nm != "c15/rw":
                        return False, f"original modified {wrote} / name {nm}"
                    if not fsel and not ex:
                        # no projection requested: the same record or an indistinguishable one
                        return (same or got_fields == list(base_fields)) and (same or (z3.And(*[it.zint(got_vals[n]) == vals[{"a": 0, "b": 1, "c": 2}[n]] for _, n in base_fields]) if base_fields else True)), "no projection requested: the record comes out changed"
                    if got_fields != want:
                        return False, f"fields={fsel} exclude={ex}: projected fields {got_fields}, expected {want}"
                    idx = {"a": 0, "b": 1, "c": 2}
                    return (z3.And(*[it.zint(got_vals[n]) == vals[idx[n]] for _, n in want]) if want else True), "a projected value changed"

                r = prove_paths("x", th, judge, lambda m_, p, fsel=fsel, ex=ex: {"fields": fsel, "exclude": ex})
                total += r.paths
                if r.status != "proved":
                    r.paths = total
                    return r
        return Result("x", "proved", paths=total)

    pack.add(Obligation("C15.projection[all ordered selections of a, b, c, zz x exclusion lists]", run_rewrite, replay=lambda w: {"call": "c15_rewrite", "args": {"fields": w.get("fields"), "exclude": w.get("exclude")}}, functions=FU,
                        mode="finite case analysis over selection / exclusion lists, symbolic values"))

    # one rewriter over a stream that mixes record types that share a name (schema generations; csv / plain-JSON readers use one name): every record is
    # projected with ITS descriptor, whatever the rewriter saw before
    def run_rewrite_history(tier):
        total = 0
        RW = st.g["RecordFieldRewriter"]
        gens = {"g1": [("varint", "a"), ("filesize", "b")], "g2": [("filesize", "b"), ("uint32", "c"), ("varint", "a")], "other": [("uint16", "b"), ("varint", "z")]}
        names = {"g1": "c15/gen", "g2": "c15/gen", "other": "c15/other"}
        for fsel, ex in ((["a", "c"], None), (None, ["a"]), (["b", "a"], ["zz"]), (["c"], None)):
            for order in itertools.permutations(["g1", "g2", "other"]):
                def th(fsel=fsel, ex=ex, order=order):
                    for v in vals[:6]:
                        it.assume(z3.And(v >= 0, v <= 65535))
                    rw = it.call(RW, [], {"fields": fsel, "exclude": ex})
                    out = []
                    for rnd in range(2):
                        for i, g in enumerate(order):
                            D = it.call(RD, [names[g], list(gens[g])], {})
                            rec = it.call(D, [], {n: SInt(vals[(i + j) % 6]) for j, (_, n) in enumerate(gens[g])})
                            o = it.call(it.getattr_(rw, "rewrite"), [rec], {})
                            out.append((g, i, fields_of(it.getattr_(o, "_desc")), {n: o.attrs.get(n) for _, n in fields_of(it.getattr_(o, "_desc"))}))
                    return out

                def judge(p, fsel=fsel, ex=ex):
                    conj = []
                    for g, i, got_fields, got_vals in p.value:
                        exs = ex or []
                        base_fields = gens[g]
                        if fsel:
                            want = [(dict((n, t) for t, n in base_fields)[n], n) for n in fsel if n in [m for _, m in base_fields] and n not in exs]
                        else:
                            want = [(t, n) for t, n in base_fields if n not in exs]
                        if got_fields != want:
                            return False, f"fields={fsel} exclude={ex}: a {g} record {base_fields} was projected to {got_fields}, expected {want} (the rewriter saw other same-name types before)"
                        for t, n in want:
                            j = [m for _, m in base_fields].index(n)
                            conj.append(it.zint(got_vals[n]) == vals[(i + j) % 6])
                    return (z3.And(*conj) if conj else True), "a projected value changed"

                r = prove_paths("x", th, judge, lambda m_, p, fsel=fsel, ex=ex, order=order: {"fields": fsel, "exclude": ex, "order": list(order)})
                total += r.paths
                if r.status != "proved":
                    r.paths = total
                    return r
        return Result("x", "proved", paths=total)

    pack.add(Obligation("C15.projection.history[one rewriter, two generations of one type name and another type, every order, twice]", run_rewrite_history, replay=lambda w: {"call": "c15_rewrite_history", "args": {"fields": w.get("fields"), "exclude": w.get("exclude"), "order": w.get("order")}},
                        functions=FU, mode="concrete histories through one rewriter object, symbolic values"))

    # ------------------------------------------------------------------ canary / bounded
    def run_canary(tier):
        def th():
            A = it.call(RD, ["c15/a", [("varint", "x")]], {})
            B = it.call(RD, ["c15/b", [("varint", "x")]], {})
            out = it.call(base.g["extend_record"], [it.call(A, [], {"x": SInt(vals[0])}), [it.call(B, [], {"x": SInt(vals[1])})]], {})
            return out.attrs["x"]
        return prove_paths("C15.canary", th, lambda p: (it.zint(p.value) == vals[1], "canary: claims the LAST record wins without replace"), lambda m_, p: {})

    pack.add(Obligation("C15.canary", run_canary, kind="canary"))

    def run_sweep(tier):
        args = {"seed": seed, "n": 300 if tier == "quick" else 6000}
        res = native_replay({"call": "c15_sweep", "args": args}, timeout=3000)
        r = Result("C15.composition_sweep", "refuted" if res.get("violates") else ("proved" if "error" not in res else "error"), str(res.get("detail") or res.get("error") or "")[:300], paths=res.get("cases", 0))
        r.native, r.confirmed, r.request, r.witness = res, bool(res.get("violates")), {"call": "c15_sweep", "args": args}, res.get("witness")
        return r

    pack.add(Obligation("C15.composition_sweep", run_sweep, kind="bounded", note="native run against a dictionary-based reference model: random descriptor lists (up to 5 records x 5 fields, overlapping names, differing types incl. text / bytes / timestamps), "
                        "replace and rename, repeated descriptors; timestamp expansion, grouped records, projection; bound 300 (quick) / 6000 (thorough) cases", functions=FU))
    pack.loop_modes = {"merge_record_descriptors / extend_record / GroupedRecord.__init__ / iter_timestamped_records loops": "unrolled over the concrete shape (BOUNDED WIDTH: records x fields as named in each obligation); all name-equality patterns of the shape, values symbolic"}
    pack.assumptions += ["composition depends on field names only through equality (dict keys / `in` tests): every equality pattern of a shape stands for all names with that pattern", "collections.OrderedDict / ChainMap semantics (executed natively on the engine's dictionaries)"]
    pack.not_covered = ["shapes wider than 3 records x 2 fields / 3 timestamp-expansion fields / 3 members x 2 fields in the deductive part (bounded-width; wider shapes only in the native sweep)", "Record._replace (C05.replace)",
                        "a field literally called ts or ts_description cannot survive the timestamp expansion next to the generated ts / ts_description (not demanded)"]
    return pack

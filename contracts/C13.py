"""C13 - timestamps are timezone-aware and keep their instant everywhere.

Contracts on the real fieldtypes.datetime.__new__, RecordPacker (binary stream), JsonRecordPacker, the SQLite and Avro adapters:

  datetime.__new__         every normal exit returns an AWARE value; naive input means UTC; a datetime argument keeps its nine components (fold included)
                           - symbolic calendar components (all years 1..9999, all valid dates and times), fixed offsets incl. offsets with seconds; zone-database zones
                           (folds / gaps) on representative wall times
  binary stream            UTC / naive -> 7 components -> the same wall clock in UTC; other offsets -> isoformat() -> fromisoformat(): same wall clock and offset
                           (for ALL symbolic timestamps; isoformat/fromisoformat by the standard library's inverse contract)
  JSON lines, SQLite       the stored value is value.isoformat() (never str(value)), read back through datetime(text): same wall clock and offset
  Avro                     handed to the timestamp-micros logical type; read back as the same instant in UTC (representative values: the engine contract is assumed)
  display setting          DISPLAY_TZINFO is read by datetime.__str__ only (structural) and what every storage format writes is the same with and without a display zone
"""
import ast
import datetime as _dt
import glob
import os
import zoneinfo

import z3

from pyvc.models.dt import ISOText, SymDT
from pyvc.models.ext import SqlDb
from pyvc.models.jsonm import JSText

from .streamlib import *  # noqa

UTC = _dt.timezone.utc
TZS = {"naive": None, "UTC": UTC, "+02:00": _dt.timezone(_dt.timedelta(hours=2)), "-09:30": _dt.timezone(_dt.timedelta(hours=-9, minutes=-30)), "+05:30:15": _dt.timezone(_dt.timedelta(hours=5, minutes=30, seconds=15)),
       "-00:00:01": _dt.timezone(_dt.timedelta(seconds=-1)), "+14:00": _dt.timezone(_dt.timedelta(hours=14))}
AMS = zoneinfo.ZoneInfo("Europe/Amsterdam")
NYC = zoneinfo.ZoneInfo("America/New_York")
CONCRETE = {"fold=0 Amsterdam": _dt.datetime(2021, 10, 31, 2, 30, tzinfo=AMS, fold=0), "fold=1 Amsterdam": _dt.datetime(2021, 10, 31, 2, 30, tzinfo=AMS, fold=1), "gap New York": _dt.datetime(2021, 3, 14, 2, 30, tzinfo=NYC),
            "gap fold=1 New York": _dt.datetime(2021, 3, 14, 2, 30, tzinfo=NYC, fold=1), "1969": _dt.datetime(1969, 12, 31, 23, 59, 59, 999999, tzinfo=UTC), "year 1": _dt.datetime(1, 1, 1, tzinfo=UTC),
            "year 9999": _dt.datetime(9999, 12, 31, 23, 59, 59, 999999, tzinfo=UTC), "year 1 +05:00": _dt.datetime(1, 1, 1, 3, tzinfo=_dt.timezone(_dt.timedelta(hours=5))), "year 9999 -05:00": _dt.datetime(9999, 12, 31, 22, tzinfo=_dt.timezone(_dt.timedelta(hours=-5))),
            "naive": _dt.datetime(2020, 2, 29, 12, 0, 0, 1), "summer Amsterdam": _dt.datetime(2021, 7, 1, 12, 0, tzinfo=AMS),
            "offset +05:30:15": _dt.datetime(2020, 1, 2, 12, 30, 15, 123456, tzinfo=_dt.timezone(_dt.timedelta(hours=5, minutes=30, seconds=15))), "offset -00:00:31": _dt.datetime(1969, 12, 31, 23, 59, 59, 5, tzinfo=_dt.timezone(-_dt.timedelta(seconds=31))),
            "Amsterdam local mean time 1900 (+00:19:32)": _dt.datetime(1900, 1, 1, 0, 0, 0, tzinfo=AMS), "offset with microseconds": _dt.datetime(2001, 2, 3, 4, 5, 6, 7, tzinfo=_dt.timezone(_dt.timedelta(hours=1, microseconds=500)))}
TEXTS = {"2020-01-02T03:04:05": (2020, 1, 2, 3, 4, 5, 0, 0.0), "2020-01-02T03:04:05.000006+02:00": (2020, 1, 2, 3, 4, 5, 6, 7200.0), "2020-01-02 03:04:05Z": (2020, 1, 2, 3, 4, 5, 0, 0.0), "2020-01-02T03:04:05.123456789+0200": (2020, 1, 2, 3, 4, 5, 123456, 7200.0),
         "1969-12-31T23:59:59.5-00:30": (1969, 12, 31, 23, 59, 59, 500000, -1800.0)}
EPOCHS = {0: (1970, 1, 1, 0, 0, 0, 0), 1e9: (2001, 9, 9, 1, 46, 40, 0), -1.5: (1969, 12, 31, 23, 59, 58, 500000), 253402300799: (9999, 12, 31, 23, 59, 59, 0)}


def build(tier="quick", seed=0):
    it, L, base, pk, st = mods()
    ft = L.import_module("flow.record.fieldtypes")
    jp = L.import_module("flow.record.jsonpacker")
    sq = L.import_module("flow.record.adapter.sqlite")
    av = L.import_module("flow.record.adapter.avro")
    pack = new_pack("C13", "Timestamps are timezone-aware and keep their instant everywhere")
    RD = base.g["RecordDescriptor"]
    DT = ft.g["datetime"]
    FU = ("flow.record.fieldtypes:datetime.__new__", "flow.record.fieldtypes:datetime.__str__", "flow.record.packer:RecordPacker.pack_obj", "flow.record.packer:RecordPacker.unpack_obj", "flow.record.jsonpacker:JsonRecordPacker.pack_obj",
          "flow.record.jsonpacker:JsonRecordPacker.unpack_obj", "flow.record.adapter.sqlite:db_insert_record", "flow.record.adapter.sqlite:SqliteWriter.write", "flow.record.adapter.sqlite:SqliteReader.read_table",
          "flow.record.adapter.avro:AvroWriter.write", "flow.record.adapter.avro:AvroReader.__iter__", "flow.record.adapter.avro:descriptor_to_schema", "flow.record.base:Record.__setattr__")
    comps = [z3.Int(n) for n in ("Y", "M", "D", "h", "m", "s", "us")]

    def sym_ts(tz):
        args = [SInt(c) for c in comps]
        return it.call(DT, args + ([tz] if tz is not None else []), {})

    def witness(m_, p):
        return {n: model_value(m_, c) for n, c in zip(("Y", "M", "D", "h", "m", "s", "us"), comps)} if m_ is not None else {}

    def wall_offset(v):
        """(components, offset seconds, fold) of a datetime value (heap object or native)"""
        b = it.unbase(v)
        if isinstance(b, SymDT):
            off = b.utcoffset()
            return list(b.comps), None if off is None else off.total_seconds(), b.fold
        if isinstance(b, _dt.datetime):
            off = b.utcoffset()
            return [b.year, b.month, b.day, b.hour, b.minute, b.second, b.microsecond], None if off is None else off.total_seconds(), b.fold
        return None

    def same_wall(a, b, need_fold=False):
        wa, wb = wall_offset(a), wall_offset(b)
        if wa is None or wb is None:
            return False, f"not timestamps: {a!r} {b!r}"
        if wa[1] is None or wb[1] is None:
            return False, f"a naive timestamp: offsets {wa[1]} {wb[1]}"
        if wa[1] != wb[1]:
            return False, f"UTC offset {wa[1]} became {wb[1]}"
        if need_fold and wa[2] != wb[2]:
            return False, f"fold {wa[2]} became {wb[2]}"
        return z3.And(*[(it.zint(x) == it.zint(y)) for x, y in zip(wa[0], wb[0])]), "wall clock differs"

    def instant_utc(v):
        b = it.unbase(v)
        return b.astimezone(UTC) if isinstance(b, _dt.datetime) else None

    ALLOWED_CTOR = ("ValueError",)

    # ------------------------------------------------------------------ A. construction: aware, naive = UTC, components kept
    for tzname, tz in TZS.items():
        name = f"C13.new[components, {tzname}]"

        def th(tz=tz):
            t = sym_ts(tz)
            w = wall_offset(t)
            return w, t

        def judge(p, tz=tz):
            w, t = p.value
            want_off = 0.0 if tz is None else tz.utcoffset(None).total_seconds()
            if w[1] != want_off:
                return False, f"constructed timestamp has offset {w[1]}, expected {want_off} (naive input means UTC; every value must be aware)"
            return z3.And(*[it.zint(a) == c for a, c in zip(w[0], comps)]), "components changed"

        pack.add(Obligation(name, lambda tier, name=name, th=th, judge=judge: prove_paths(name, th, judge, witness, allow_raise=ALLOWED_CTOR), replay=lambda w, tzname=tzname: {"call": "c13_roundtrip", "args": dict(w, tz=tzname, fmt="none")}, functions=FU,
                            mode="symbolic calendar components (all valid dates and times)"))

        name = f"C13.new[from timestamp, {tzname}]"

        def th2(tz=tz):
            t = sym_ts(tz)
            return t, it.call(DT, [t], {})

        pack.add(Obligation(name, lambda tier, name=name, th2=th2: prove_paths(name, th2, lambda p: same_wall(p.value[0], p.value[1], need_fold=True), witness, allow_raise=ALLOWED_CTOR), replay=lambda w, tzname=tzname: {"call": "c13_roundtrip", "args": dict(w, tz=tzname, fmt="copy")},
                            functions=FU, mode="symbolic calendar components"))

    for nm, d in CONCRETE.items():
        name = f"C13.new[from datetime object, {nm}]"

        def th(d=d):
            t = it.call(DT, [d], {})
            b = it.unbase(t)
            want = d if d.tzinfo is not None else d.replace(tzinfo=UTC)
            return it.type_name(t) == "datetime" and b.tzinfo is not None and b.utcoffset() == want.utcoffset() and b.replace(tzinfo=None) == want.replace(tzinfo=None) and b.fold == want.fold

        pack.add(Obligation(name, lambda tier, name=name, th=th: prove_paths(name, th, lambda p: (p.value is True, "a datetime argument does not keep its wall clock, offset, fold (instant)")), replay=lambda w, nm=nm: {"call": "c13_concrete", "args": {"which": nm, "fmt": "copy"}}, functions=FU, mode="representative value"))
    for text, want in TEXTS.items():
        name = f"C13.new[from text, {text}]"

        def th(text=text):
            out = []
            for arg in (text, text.encode()):
                b = it.unbase(it.call(DT, [arg], {}))
                out.append((b.year, b.month, b.day, b.hour, b.minute, b.second, b.microsecond, b.utcoffset().total_seconds() if b.utcoffset() is not None else None))
            return out

        pack.add(Obligation(name, lambda tier, name=name, th=th, want=want: prove_paths(name, th, lambda p: (p.value == [want, want], f"parsed as {p.value}, expected {want} (naive text means UTC)")), replay=lambda w, text=text: {"call": "c13_text", "args": {"text": text}}, functions=FU, mode="representative value"))
    def under_tz(tzname, fn):
        """runs fn with the process time zone (TZ) set to tzname: an epoch number names an instant, the system time zone must not enter"""
        import os as _os
        import time as _time

        saved = _os.environ.get("TZ")
        _os.environ["TZ"] = tzname
        _time.tzset()
        try:
            return fn()
        finally:
            if saved is None:
                _os.environ.pop("TZ", None)
            else:
                _os.environ["TZ"] = saved
            _time.tzset()

    for ep, want in EPOCHS.items():
      for systz in (None, "Asia/Tokyo", "America/New_York"):
        name = f"C13.new[from epoch, {ep}" + (f", system time zone {systz}]" if systz else "]")

        def th(ep=ep, systz=systz):
            def body():
                b = it.unbase(it.call(DT, [ep], {}))
                return (b.year, b.month, b.day, b.hour, b.minute, b.second, b.microsecond), b.utcoffset().total_seconds() if b.utcoffset() is not None else None
            return under_tz(systz, body) if systz else body()

        pack.add(Obligation(name, lambda tier, name=name, th=th, want=want: prove_paths(name, th, lambda p: (p.value == (want, 0.0), f"epoch number became {p.value}")), replay=lambda w, ep=ep, systz=systz: {"call": "c13_epoch", "args": {"ep": ep, "systz": systz}}, functions=FU, mode="representative value"))

    # ------------------------------------------------------------------ B. storage formats, symbolic timestamps
    def rec_with(t):
        D = it.call(RD, ["c13/t", [("datetime", "ts"), ("datetime[]", "tl")]], {})
        return D, it.call(D, [], {"ts": t, "tl": [t]})

    def via_stream(t):
        D, r = rec_with(t)
        p = it.call(pk.g["RecordPacker"], [], {})
        o = it.call(it.getattr_(p, "unpack"), [it.call(it.getattr_(p, "pack"), [r], {})], {})
        return [o.attrs["ts"], o.attrs["tl"].base[0]], None

    def via_json(t):
        D, r = rec_with(t)
        p = it.call(jp.g["JsonRecordPacker"], [], {})
        line = it.call(it.getattr_(p, "pack"), [r], {})
        stored = dict(line.tree[1])["ts"][1] if isinstance(line, JSText) else None
        q = it.call(jp.g["JsonRecordPacker"], [], {})
        it.call(it.getattr_(q, "register"), [D], {})
        o = it.call(it.getattr_(q, "unpack"), [line], {})
        return [o.attrs["ts"], o.attrs["tl"].base[0]], stored

    def via_sqlite(t):
        D = it.call(RD, ["c13/t", [("datetime", "ts")]], {})
        r = it.call(D, [], {"ts": t})
        db = SqlDb()
        it.vfs = {"/abs/c13.db": db}
        w = it.call(sq.g["SqliteWriter"], ["/abs/c13.db"], {})
        it.call(it.getattr_(w, "write"), [r], {})
        it.call(it.getattr_(w, "close"), [], {})
        stored = db.tables["c13/t"]["rows"][0][0]
        rd = it.call(sq.g["SqliteReader"], ["/abs/c13.db"], {})
        out = list(it.iterate(rd))
        return [o.attrs["ts"] for o in out], stored

    def via_avro(t):
        D = it.call(RD, ["c13/t", [("datetime", "ts")]], {})
        r = it.call(D, [], {"ts": t})
        fp = AbsFile(it, mode="wb")
        w = it.call(av.g["AvroWriter"], [fp], {})
        it.call(it.getattr_(w, "write"), [r], {})
        it.call(it.getattr_(w, "flush"), [], {})
        rd = it.call(av.g["AvroReader"], [AbsFile(it, fp.content())], {})
        out = list(it.iterate(rd))
        return [o.attrs["ts"] for o in out], None

    FORMATS = {"stream": via_stream, "json": via_json, "sqlite": via_sqlite}

    def stored_is_iso(stored, t):
        """JSON / SQLite store value.isoformat() (separator 'T'), never str(value)"""
        if stored is None:
            return True
        b = it.unbase(t)
        if isinstance(stored, ISOText):
            return stored.sep == "T" and stored.dt is b or (stored.sep == "T" and stored.dt.same_as(b) is not False)
        if isinstance(b, _dt.datetime):
            # the stored text is ISO 8601 text of this very value (its own wall clock and offset - not the display time zone's); the exact layout
            # (fraction written or left out when zero) is not part of the property
            try:
                d2 = _dt.datetime.fromisoformat(it.unbase(stored))
            except (ValueError, TypeError):
                return False
            return d2.tzinfo is not None and d2.utcoffset() == b.utcoffset() and d2.replace(tzinfo=None) == b.replace(tzinfo=None) and "T" in it.unbase(stored)
        return False

    for fmt, via in FORMATS.items():
        for tzname, tz in TZS.items():
            name = f"C13.{fmt}[any timestamp, {tzname}]"

            def th(via=via, tz=tz):
                t = sym_ts(tz)
                back, stored = via(t)
                return t, back, stored_is_iso(stored, t)

            def judge(p):
                t, back, iso = p.value
                if not iso:
                    return False, "the stored text is not value.isoformat()"
                if not back:
                    return False, "nothing read back"
                conj = []
                for b in back:
                    g, why = same_wall(t, b)
                    if g is False:
                        return False, why
                    conj.append(g)
                return z3.And(*conj), "wall clock differs after the round trip"

            pack.add(Obligation(name, lambda tier, name=name, th=th, judge=judge: prove_paths(name, th, judge, witness, allow_raise=ALLOWED_CTOR), replay=lambda w, tzname=tzname, fmt=fmt: {"call": "c13_roundtrip", "args": dict(w, tz=tzname, fmt=fmt)}, functions=FU,
                                mode="symbolic calendar components (all years 1..9999, all valid dates and times to the microsecond)"))

    # ------------------------------------------------------------------ C. storage formats, representative zone-database and boundary values (incl. Avro)
    for fmt, via in list(FORMATS.items()) + [("avro", via_avro)]:
        for nm, d in CONCRETE.items():
            if fmt == "avro" and nm in ("year 1 +05:00", "year 9999 -05:00"):
                continue  # the instant lies outside years 1..9999 in UTC, which Avro's UTC normalisation cannot represent
            name = f"C13.{fmt}[{nm}]"

            def th(via=via, d=d, fmt=fmt):
                t = it.call(DT, [d], {})
                back, stored = via(t)
                tb = it.unbase(t)
                res = []
                for b in back:
                    bb = it.unbase(b)
                    ok = isinstance(bb, _dt.datetime) and bb.tzinfo is not None
                    if fmt == "avro":  # the same instant, to the microsecond, normalised to UTC
                        ok = ok and bb.utcoffset() == _dt.timedelta(0) and bb.replace(tzinfo=None) == tb.replace(tzinfo=None) - tb.utcoffset()
                    else:  # the same wall clock and the same UTC offset (hence the same instant)
                        ok = ok and bb.utcoffset() == tb.utcoffset() and bb.replace(tzinfo=None) == tb.replace(tzinfo=None)
                    res.append(ok)
                return bool(res) and all(res), stored_is_iso(stored, t), [repr(it.unbase(b)) for b in back]

            pack.add(Obligation(name, lambda tier, name=name, th=th: prove_paths(name, th, lambda p: (p.value[0] and p.value[1], f"read back {p.value[2]} (stored text is isoformat(): {p.value[1]})")), replay=lambda w, nm=nm, fmt=fmt: {"call": "c13_concrete", "args": {"which": nm, "fmt": fmt}},
                                functions=FU, mode="representative value (zone database / boundary)"))
    pack.case_analyses += [f"fixed offsets {sorted(TZS)} with symbolic calendar components", f"representative zone-database and boundary timestamps {sorted(CONCRETE)}", "input forms: components, timestamp object, ISO text (str and bytes), epoch number"]

    # ------------------------------------------------------------------ C2. histories: one process writes the SAME instant under different offsets / zones / folds, in every order
    SAME_INSTANT = [_dt.datetime(2021, 7, 1, 12, 30, 15, 5, tzinfo=UTC), _dt.datetime(2021, 7, 1, 14, 30, 15, 5, tzinfo=_dt.timezone(_dt.timedelta(hours=2))), _dt.datetime(2021, 7, 1, 14, 30, 15, 5, tzinfo=AMS),
                    _dt.datetime(2021, 7, 1, 3, 0, 15, 5, tzinfo=_dt.timezone(_dt.timedelta(hours=-9, minutes=-30)))]
    FOLDS = [_dt.datetime(2021, 10, 31, 2, 30, tzinfo=AMS, fold=0), _dt.datetime(2021, 10, 31, 2, 30, tzinfo=AMS, fold=1), _dt.datetime(2021, 10, 31, 0, 30, tzinfo=UTC), _dt.datetime(2021, 10, 31, 1, 30, tzinfo=UTC)]
    for fmt, via in list(FORMATS.items()) + [("avro", via_avro)]:
        for label, seq in (("same instant, four offsets", SAME_INSTANT), ("reversed", SAME_INSTANT[::-1]), ("fold=0 / fold=1 / their UTC instants", FOLDS), ("folds reversed", FOLDS[::-1])):
            name = f"C13.{fmt}.history[{label}]"

            def th(via=via, seq=seq, fmt=fmt):
                bad = []
                for d in seq + seq[:2]:
                    t = it.call(DT, [d], {})
                    back, stored = via(t)
                    tb = it.unbase(t)
                    for b in back:
                        bb = it.unbase(b)
                        if fmt == "avro":
                            ok = bb.utcoffset() == _dt.timedelta(0) and bb.replace(tzinfo=None) == tb.replace(tzinfo=None) - tb.utcoffset()
                        else:
                            ok = bb.utcoffset() == tb.utcoffset() and bb.replace(tzinfo=None) == tb.replace(tzinfo=None)
                        if not ok:
                            bad.append(f"wrote {tb.isoformat()} (fold {tb.fold}) read {bb.isoformat()}")
                return bad

            pack.add(Obligation(name, lambda tier, name=name, th=th: prove_paths(name, th, lambda p: (not p.value, f"within one process: {p.value[:2]}")), replay=lambda w, fmt=fmt: {"call": "c13_history", "args": {"fmt": fmt}}, functions=FU, mode="concrete write histories in one process (equal instants must not share anything)"))

    # ------------------------------------------------------------------ D. display setting
    def th_display_sites():
        sites = []
        for f in sorted(glob.glob(os.path.join(REPO, "flow", "record", "**", "*.py"), recursive=True)):
            tree = ast.parse(open(f).read())
            for fn in ast.walk(tree):
                if isinstance(fn, (ast.FunctionDef, ast.Lambda)):
                    for n in ast.walk(fn):
                        if isinstance(n, ast.Name) and n.id == "DISPLAY_TZINFO" or isinstance(n, ast.Attribute) and n.attr == "DISPLAY_TZINFO":
                            sites.append((os.path.relpath(f, REPO), getattr(fn, "name", "<lambda>")))
        return sorted(set(sites))

    pack.add(Obligation("C13.display.sites", lambda tier: prove_paths("C13.display.sites", th_display_sites, lambda p: (set(p.value) <= {("flow/record/fieldtypes/__init__.py", "__str__")}, f"DISPLAY_TZINFO is used outside datetime.__str__: {p.value}")),
                        replay=lambda w: {"call": "c13_display", "args": {}}, functions=FU, mode="structural (AST scan of every function in flow/record)"))

    for fmt, via in list(FORMATS.items()) + [("avro", via_avro)]:
        name = f"C13.display.{fmt}"

        def th(via=via, fmt=fmt):
            outs = []
            for disp in (None, AMS, _dt.timezone(_dt.timedelta(hours=-7))):
                ft.g["DISPLAY_TZINFO"] = disp
                try:
                    row = []
                    for d in (CONCRETE["summer Amsterdam"], CONCRETE["1969"], _dt.datetime(2020, 1, 1, 12, tzinfo=_dt.timezone(_dt.timedelta(hours=3)))):
                        t = it.call(DT, [d], {})
                        back, stored = via(t)
                        row.append((repr(it.unbase(stored)) if stored is not None else None, [(it.unbase(b).isoformat(), it.unbase(b).utcoffset()) for b in back]))
                    outs.append(row)
                finally:
                    ft.g["DISPLAY_TZINFO"] = UTC
            return outs

        pack.add(Obligation(name, lambda tier, name=name, th=th: prove_paths(name, th, lambda p: (p.value[0] == p.value[1] == p.value[2], f"what is stored / read back depends on the display time zone: {p.value[0]!r:.200} vs {p.value[1]!r:.200}")),
                            replay=lambda w, fmt=fmt: {"call": "c13_display", "args": {"fmt": fmt}}, functions=FU, mode="representative values x three display settings"))

    # ------------------------------------------------------------------ canary / conformance / bounded
    def run_canary(tier):
        def th():
            t = sym_ts(TZS["+02:00"])
            back, stored = via_stream(t)
            return t, back

        return prove_paths("C13.canary", th, lambda p: (z3.And(*[it.zint(a) == it.zint(b) + 1 for a, b in zip(wall_offset(p.value[0])[0][:1], wall_offset(p.value[1][0])[0][:1])]), "canary"), witness, allow_raise=ALLOWED_CTOR)

    pack.add(Obligation("C13.canary", run_canary, kind="canary"))

    def run_cross(tier):
        res = native_replay({"call": "c13_model_conformance", "args": {"seed": seed}})
        return Result("C13.cross", "proved" if res.get("ok") else "refuted", str(res.get("detail") or res.get("error") or "")[:300], paths=res.get("cases", 0))

    pack.add(Obligation("C13.cross", run_cross, kind="cross"))

    def run_sweep(tier):
        args = {"seed": seed, "n": 150 if tier == "quick" else 3000}
        res = native_replay({"call": "c13_sweep", "args": args}, timeout=3000)
        r = Result("C13.timestamp_sweep", "refuted" if res.get("violates") else ("proved" if "error" not in res else "error"), str(res.get("detail") or res.get("error") or "")[:300], paths=res.get("cases", 0))
        r.native, r.confirmed, r.request, r.witness = res, bool(res.get("violates")), {"call": "c13_sweep", "args": args}, res.get("witness")
        return r

    pack.add(Obligation("C13.timestamp_sweep", run_sweep, kind="bounded", note="native run on real files: boundary and random datetimes x tzinfo kinds (UTC, fixed offsets incl. seconds, IANA zones incl. fold and gap wall times, naive) x input forms (object, ISO text, epoch) "
                        "x stream / JSON / SQLite / Avro x display settings; wall clock + offset (UTC instant for Avro) compared; bound 150 (quick) / 3000 (thorough) cases", functions=FU))
    pack.assumptions += ["datetime contract (pyvc/models/dt.py): constructor ranges, field-wise timetuple/replace, fromisoformat(isoformat(d)) keeps wall clock and offset, fixed utcoffset of datetime.timezone (sampled by C13.cross)",
                         "zone-database time zones, astimezone and fromtimestamp are executed natively on representative values", "fastavro timestamp-micros returns the same instant as an aware UTC datetime (model; sampled in the bounded sweep)", "msgpack / json / sqlite3 models"]
    pack.not_covered = ["the SQLite and Avro engines themselves", "parsing on Python 3.9 / 3.10 (the manual ISO fix-ups; the engine interprets the 3.11+ branch that the pinned interpreter runs)",
                        "offsets whose hours, minutes and seconds are all zero but whose microseconds are not: the standard library's fromisoformat drops them (outside the datetime contract's domain)"]
    return pack

"""C06 - descriptor names are validated; untrusted definitions cannot inject code.

Contracts on the real code (flow/record/base.py, packer.py, jsonpacker.py, adapter/avro.py):

  is_valid_field_name(s, check_reserved)   ensures result => s in [A-Za-z][A-Za-z0-9_]*  (or s reserved when check_reserved=False)
  fieldtype(t)                             ensures normal return => t in {w, w+"[]" | w in WHITELIST};
                                           import_module is only reached for module paths below flow.record.fieldtypes
  RecordDescriptor(name, [(t, f), ...])    at exec(code, _globals):  name in ident(/ident)*, every f in the field grammar, every t on the
                                           whitelist; `code` is the fixed template with validated identifiers only at identifier positions
                                           (AST allow-list), its slots are the declared fields followed by the reserved fields;
                                           every path that does not reach exec raises (the definition is rejected)
  RecordPacker.unpack_obj / JsonRecordPacker.unpack_obj / schema_to_descriptor
                                           a definition arriving in a stream / JSON line / Avro schema reaches class creation only through
                                           the same gate (the real entry point is executed with symbolic name / type / field-name text)

All strings are symbolic (z3 sequences over U+0000..U+2FFFF): one obligation covers every text.
"""
import ast
import re

import z3

from pyvc.models.builtins_ import ExecReached
from pyvc.models.mp import MPBytes
from pyvc.models.regex import ANY

from .common import *  # noqa

RESERVED = ["_source", "_classification", "_generated", "_version"]  # published reserved metadata fields, in order (also pinned by C02)


def specs(whitelist):
    letter = z3.Union(z3.Range("a", "z"), z3.Range("A", "Z"))
    alnum = z3.Union(letter, z3.Range("0", "9"), z3.Re("_"))
    ident = z3.Concat(letter, z3.Star(alnum))
    type_name = z3.Concat(ident, z3.Star(z3.Concat(z3.Re("/"), ident)))
    wl = z3.Union(*[z3.Re(w) for w in whitelist])
    wl = z3.Concat(wl, z3.Option(z3.Re("[]")))
    return ident, type_name, wl


from spec.template_allowlist import validate_generated_source  # noqa: E402


def leaves_of(term):
    """Maximal non-constant sub-terms of a string concatenation."""
    if z3.is_string_value(term):
        return []
    if z3.is_app(term) and term.decl().kind() == z3.Z3_OP_SEQ_CONCAT:
        out = []
        for c in term.children():
            out += leaves_of(c)
        return out
    return [term]


def build(tier="quick", seed=0):
    it, L = engine()
    base = L.import_module("flow.record.base")
    pk = L.import_module("flow.record.packer")
    jp = L.import_module("flow.record.jsonpacker")
    WL = list(L.import_module("flow.record.whitelist").g["WHITELIST"])
    IDENT, TYPENAME, WLSPEC = specs(WL)
    RESERVED_RE = z3.Union(*[z3.Re(r) for r in RESERVED])
    pack = new_pack("C06", "Descriptor names are validated; untrusted definitions cannot inject code")
    RD = base.g["RecordDescriptor"]
    nm, tn, fn, fn2 = z3.String("name"), z3.String("ftype"), z3.String("fname"), z3.String("fname2")
    FU_GATE = ("flow.record.base:RecordDescriptor.__init__", "flow.record.base:_generate_record_class", "flow.record.base:is_valid_field_name", "flow.record.base:RecordField.__init__",
               "flow.record.base:fieldtype", "flow.record.base:RecordDescriptor.get_required_fields", "flow.record.utils:to_str")

    def mv(m, t):
        return model_value(m, t) if m is not None else None

    # ---- 1. accepted language of the field-name validator
    for check_reserved in (True, False):
        name = f"C06.field_lang[check_reserved={check_reserved}]"

        def run(tier, check_reserved=check_reserved, name=name):
            def judge(p):
                if p.kind == "raise":
                    return True  # rejected with an error
                if p.value is False:
                    return True
                if p.value is not True:
                    return False, f"returns {p.value!r}"
                spec = z3.InRe(fn, IDENT) if check_reserved else z3.Or(z3.InRe(fn, IDENT), z3.InRe(fn, RESERVED_RE))
                return spec, "accepted a field name outside [A-Za-z][A-Za-z0-9_]*"

            return prove_paths(name, lambda: it.call(base.g["is_valid_field_name"], [SStr(fn)], {"check_reserved": check_reserved}), judge, lambda m, p: {"fname": mv(m, fn), "check_reserved": check_reserved}, allow_raise=None)

        pack.add(Obligation(name, run, replay=lambda w: {"call": "c06_field_name", "args": w}, functions=("flow.record.base:is_valid_field_name", "flow.record.base:RE_VALID_FIELD_NAME")))

    # ---- 2. whitelist gate of fieldtype()
    ALLOWED_MODULES = {"flow.record.fieldtypes", "flow.record.fieldtypes.net", "flow.record.fieldtypes.net.ipv4", "flow.record.fieldtypes.net.tcp", "flow.record.fieldtypes.net.udp"}

    def run_whitelist(tier):
        it.trace_calls = True
        try:
            def judge(p):
                imports = [e for e in p.events if e[0] == "call" and "import_module" in str(e[1])]
                for e in imports:
                    if not (e[3] and isinstance(e[3][0], str) and e[3][0] in ALLOWED_MODULES):
                        return False, f"import_module reached with {e[3]!r}"
                if p.kind == "raise":
                    return (not imports) or z3.InRe(tn, WLSPEC), "import_module reached for a type that is not on the whitelist"
                return z3.InRe(tn, WLSPEC), "fieldtype() accepted a type name that is neither a whitelisted type nor its list form"

            return prove_paths("C06.whitelist", lambda: it.call(base.g["fieldtype"], [SStr(tn)], {}), judge, lambda m, p: {"ftype": mv(m, tn)}, allow_raise=None)
        finally:
            it.trace_calls = False

    pack.add(Obligation("C06.whitelist", run_whitelist, replay=lambda w: {"call": "c06_fieldtype", "args": w}, functions=("flow.record.base:fieldtype",)))

    # ---- 3. the gate in front of exec, through every entry point, names / types symbolic
    def entry_api(name_v, fields_v):
        return it.call(RD, [name_v, fields_v], {})

    def entry_stream(name_v, fields_v):
        packer = it.call(pk.g["RecordPacker"], [], {})
        tree = ("arr", [("leaf", 2), ("arr", [("leaf", name_v), ("arr", [("arr", [("leaf", t), ("leaf", f)]) for t, f in fields_v]) if fields_v is not None else ("leaf", None)])])
        return it.call(it.getattr_(packer, "unpack_obj"), [14, MPBytes(tree)], {})

    def entry_json(name_v, fields_v):
        packer = it.call(jp.g["JsonRecordPacker"], [], {})
        return it.call(it.getattr_(packer, "unpack_obj"), [{"_type": "recorddescriptor", "_data": [name_v, [[t, f] for t, f in fields_v] if fields_v is not None else None]}], {})

    def entry_avro_doc(name_v, fields_v):
        import json

        avro = L.import_module("flow.record.adapter.avro")
        saved = it.models.get(json.loads)
        it.models[json.loads] = lambda it_, doc: [name_v, [[t, f] for t, f in fields_v]]  # assumed: json.loads returns *some* JSON value; the gate is proved for arbitrary text in these positions
        try:
            return it.call(avro.g["schema_to_descriptor"], [{"doc": '["x", [["string", "y"]]]'}], {})
        finally:
            if saved is None:
                it.models.pop(json.loads, None)
            else:
                it.models[json.loads] = saved

    def entry_avro_schema(name_v, fields_v):
        avro = L.import_module("flow.record.adapter.avro")
        return it.call(avro.g["schema_to_descriptor"], [{"namespace": "", "name": name_v, "fields": [{"name": f, "type": ["string", "null"]} for t, f in fields_v]}], {})

    def entry_grouped_api(name_v, fields_v):
        M = it.call(RD, ["c06/member", [("string", "s")]], {})
        return it.call(base.g["GroupedRecord"], [name_v, [it.call(M, [], {"s": "x"})]], {})

    def entry_grouped_stream(name_v, fields_v):
        # a grouped-record frame (sub-type 0x12) naming the group; its one member is of a registered, valid type
        M = it.call(RD, ["c06/member", [("string", "s")]], {})
        packer = it.call(pk.g["RecordPacker"], [], {})
        it.call(it.getattr_(packer, "register"), [M], {})
        ident = it.getattr_(M, "identifier")
        tree = ("arr", [("leaf", 0x12), ("arr", [("leaf", name_v), ("arr", [("arr", [("arr", [("leaf", ident[0]), ("leaf", ident[1])]), ("arr", [("leaf", "x"), ("leaf", None), ("leaf", None), ("leaf", None), ("leaf", 1)])])])])])
        return it.call(it.getattr_(packer, "unpack_obj"), [14, MPBytes(tree)], {})

    def entry_api_clone(name_v, fields_v):
        # the (deprecated) clone form: RecordDescriptor(name, <another descriptor>) takes the field list of that descriptor and the NEW name
        proto = it.call(RD, ["c06/proto", []], {})
        return it.call(RD, [name_v, proto], {})

    def entry_api_one_string(name_v, fields_v):
        # the (deprecated) one-string form: the definition text is split by parse_def(); assumed: parse_def returns SOME name text and SOME (type, name) pairs -
        # the gate is proved for arbitrary text in these positions
        it.contracts["parse_def"] = lambda it_, fn_, args, kwargs: (name_v, list(fields_v))
        try:
            return it.call(RD, ["<one-string definition>"], {})
        finally:
            it.contracts.pop("parse_def", None)

    def entry_stream_nested(name_v, fields_v):
        # a descriptor frame whose field-list slot holds ANOTHER descriptor frame: the decoder resolves the inner frame first and hands a descriptor object over
        packer = it.call(pk.g["RecordPacker"], [], {})
        inner = MPBytes(("arr", [("leaf", 2), ("arr", [("leaf", "c06/inner"), ("arr", [])])]))
        tree = ("arr", [("leaf", 2), ("arr", [("leaf", name_v), ("ext", 14, inner)])])
        return it.call(it.getattr_(packer, "unpack_obj"), [14, MPBytes(tree)], {})

    def entry_merge_api(name_v, fields_v):
        # the composition API takes a free type name for the merged / extended type: it is a definition like any other
        P = it.call(RD, ["c06/p", []], {})
        return it.call(base.g["merge_record_descriptors"], [(P,)], {"name": name_v})

    def entry_extend_api(name_v, fields_v):
        P = it.call(RD, ["c06/p", []], {})
        r = it.call(base.g["extend_record"], [it.call(P, [], {}), []], {"name": name_v})
        return it.getattr_(r, "_desc")

    def entry_descriptor_extend(name_v, fields_v):
        # RecordDescriptor.extend(fields): the extra (type, name) pairs are new text, the type name is the one of the (accepted) descriptor
        P = it.call(RD, ["c06/p", [("string", "kept")]], {})
        return it.call(it.getattr_(P, "extend"), [list(fields_v)], {})

    ENTRIES = {"descriptor_extend": entry_descriptor_extend, "merge_api": entry_merge_api, "extend_api": entry_extend_api, "api_clone": entry_api_clone, "api_one_string": entry_api_one_string, "stream_nested": entry_stream_nested, "api": entry_api, "stream": entry_stream, "json": entry_json, "avro_doc": entry_avro_doc, "avro_schema": entry_avro_schema, "grouped_api": entry_grouped_api, "grouped_stream": entry_grouped_stream}
    SHAPES = {
        "one_field": lambda: [(SStr(tn), SStr(fn))],
        "no_field": lambda: [],
        "two_fields": lambda: [("string", SStr(fn)), ("varint", SStr(fn2))],
        "same_field_twice": lambda: (lambda f: [("string", f), ("varint", f)])(SStr(fn)),
    }

    NPART = 6
    WL_PARTS = [WL[i::NPART - 1] for i in range(NPART - 1)]

    def part_cond(i):
        """Partition of the field-type text: the whitelist in NPART-1 chunks (scalar or list form) and everything else (exhaustive, checked by C06.partition)."""
        chunks = [z3.Concat(z3.Union(*[z3.Re(w) for w in c]), z3.Option(z3.Re("[]"))) for c in WL_PARTS]
        return z3.InRe(tn, chunks[i]) if i < NPART - 1 else z3.Not(z3.InRe(tn, z3.Union(*chunks)))

    def make_gate(entry, shape, part=None):
        name = f"C06.gate[{entry},{shape}{'' if part is None else ',types%d' % part}]"

        def run(tier):
            def th():
                fields_v = SHAPES[shape]()
                if part is not None:
                    it.assume(part_cond(part))
                if shape == "two_fields":
                    it.assume(fn != fn2)
                if entry == "descriptor_extend":  # (a name declared twice is the case of C06.dup.fields; here the added names are new ones)
                    it.assume(fn != z3.StringVal("kept"))
                    if shape == "two_fields":
                        it.assume(fn2 != z3.StringVal("kept"))
                if entry == "avro_schema" and shape == "two_fields":
                    return ENTRIES[entry]("ns.t", fields_v)  # (the derived name is symbolic in the one_field / no_field obligations; here the two field names are)
                return ENTRIES[entry](SStr(nm), fields_v)

            n_exec = [0]

            def judge(p):
                if p.kind == "return":
                    # a fully concrete definition on this path (e.g. every schema field was skipped): the interpreter ran exec() itself; validate that text
                    ev = [e for e in p.events if e[0] == "exec" and isinstance(e[1], str)]
                    if not ev:
                        return False, f"definition accepted without passing the exec gate: {p.value!r}"
                    text = ev[-1][1]
                    try:
                        slots = [x for x in ast.literal_eval([n.value for n in ast.walk(ast.parse(text)) if isinstance(n, ast.Assign) and ast.unparse(n.targets[0]) == "__slots__"][0]) if x not in RESERVED]
                    except Exception:
                        slots = []
                    complaints = validate_generated_source(text, None, slots)
                    n_exec[0] += 1
                    return (not complaints), f"generated source violates the template allow-list: {complaints[:3]}"
                if not (isinstance(p.value, ExecReached)):
                    e = p.value
                    is_exc = isinstance(e, Exception) or isinstance(e, PObj) and e.cls.is_subclass_of(Exception)
                    return is_exc, f"not rejected with an ordinary error: {e!r}"
                ev = [e for e in p.events if e[0] == "exec-symbolic"]
                code = ev[-1][1].t
                leaves = leaves_of(code)
                conj, names = [], []
                for lf in leaves:
                    if z3.is_app(lf) and lf.decl().kind() == z3.Z3_OP_SEQ_REPLACE_ALL and z3.is_string_value(lf.arg(1)) and lf.arg(1).as_string() == "/" and lf.arg(2).as_string() == "_":
                        # class name: '/' -> '_' of the type name; lemma (checked below as C06.lemma.classname): the image of ident(/ident)* is inside the identifier grammar
                        conj.append(z3.InRe(lf.arg(0), TYPENAME))
                    else:
                        conj.append(z3.Or(z3.InRe(lf, IDENT), z3.InRe(lf, RESERVED_RE)))
                st, m, _ = solver.valid(p.pc, z3.And(conj) if conj else z3.BoolVal(True))
                if st != "proved":
                    return (z3.And(conj), f"text that is not an identifier reaches exec (leaves {[str(l)[:60] for l in leaves][:4]})")
                # declared names as validated on this path
                goal = [z3.InRe(nm, TYPENAME)] if entry != "descriptor_extend" else []
                if shape in ("one_field",):
                    goal += [z3.InRe(tn, WLSPEC), z3.InRe(fn, IDENT)]
                if shape in ("two_fields",):
                    goal += [z3.InRe(fn, IDENT), z3.InRe(fn2, IDENT)]
                if shape == "same_field_twice":
                    goal += [z3.InRe(fn, IDENT)]
                if entry == "avro_schema":
                    # the type name is derived ('/'-join, '.'->'/', strip) and the type is fixed by the Avro type map: the derived text is judged through the leaves above
                    # (fields whose name starts with '_' are skipped by the reader, so a field-name text need not be valid unless it reaches the source text)
                    goal = [z3.BoolVal(True)]
                st, m2, _ = solver.valid(p.pc, z3.And(goal))
                if st != "proved":
                    return z3.And(goal), "exec is reached for a definition whose name / field name / field type is outside the grammar or the whitelist"
                # instantiate the path with a model and validate the concrete source text against the AST allow-list
                r, mdl, _ = solver.check(p.pc, want_model=True)
                if r == "unsat":
                    return True
                if mdl is None:  # z3 could not produce a model of the full path condition (word equations from strip()): instantiate from the
                    # regex memberships alone - an over-approximation of the texts that can reach exec, which is the sound direction here
                    r, mdl, _ = solver.check([c for c in solver.normalize(p.pc) if z3.is_app(c) and c.decl().kind() == z3.Z3_OP_SEQ_IN_RE], want_model=True)
                    if mdl is None:
                        return False, "no model of the path condition could be produced to instantiate the generated source"
                n_exec[0] += 1
                text = solver.zs(mdl.eval(code, model_completion=True))
                tname = solver.zs(mdl.eval(nm, model_completion=True))
                if entry == "avro_schema":
                    tname = None  # derived name: only its shape is checked
                if entry == "descriptor_extend":
                    tname = "c06/p"
                fl = {"one_field": [fn], "no_field": [], "two_fields": [fn, fn2], "same_field_twice": [fn]}[shape]
                declared = [solver.zs(mdl.eval(f, model_completion=True)) for f in fl]
                if entry == "descriptor_extend":
                    declared = ["kept"] + declared
                if entry.startswith("grouped"):
                    declared = ["s"]  # the flat descriptor of the group: the field of its (valid) member
                if entry == "avro_schema":
                    declared = [f for f in declared if not f.startswith("_")]  # schema fields with a leading underscore are metadata and are skipped by the reader
                complaints = validate_generated_source(text, tname, declared)
                return (not complaints), f"generated source violates the template allow-list: {complaints[:3]} for {text[:200]!r}"

            r = prove_paths(name, th, judge, lambda m, p: {"entry": entry, "name": mv(m, nm), "fields": [[mv(m, tn) if shape == "one_field" else "string", mv(m, fn)]] + ([["varint", mv(m, fn2) if shape == "two_fields" else mv(m, fn)]] if shape in ("two_fields", "same_field_twice") else []) if shape != "no_field" else []},
                            allow_raise=None, max_paths=20000)
            if r.status == "proved" and n_exec[0] == 0 and part != NPART - 1:  # (the partition "type not on the whitelist" must never reach exec)
                return Result(name, "undecided", "vacuous: no path reaches exec", paths=r.paths)
            return r

        return Obligation(name, run, replay=lambda w: {"call": "c06_definition", "args": w if w else {"entry": entry}}, functions=FU_GATE + {"stream": ("flow.record.packer:RecordPacker.unpack_obj", "flow.record.base:RecordDescriptor._unpack"), "json": ("flow.record.jsonpacker:JsonRecordPacker.unpack_obj",),
                                                                                                              "avro_doc": ("flow.record.adapter.avro:schema_to_descriptor",), "avro_schema": ("flow.record.adapter.avro:schema_to_descriptor", "flow.record.adapter.avro:avro_type_to_flow_type"), "api": (),
                                                                                                              "merge_api": ("flow.record.base:merge_record_descriptors",), "extend_api": ("flow.record.base:extend_record",), "descriptor_extend": ("flow.record.base:RecordDescriptor.extend",), "api_clone": (), "api_one_string": ("flow.record.base:parse_def (assumed: returns some name and some pairs)",), "stream_nested": ("flow.record.packer:RecordPacker.unpack_obj", "flow.record.base:RecordDescriptor._unpack"), "grouped_api": ("flow.record.base:GroupedRecord.__init__",), "grouped_stream": ("flow.record.packer:RecordPacker.unpack_obj", "flow.record.base:GroupedRecord.__init__")}[entry])

    for entry in ENTRIES:
        for shape in SHAPES:
            if entry != "api" and shape in ("same_field_twice",):
                continue
            if entry in ("api_clone", "stream_nested", "merge_api", "extend_api") and shape != "no_field":
                continue  # (only the NAME is new text in these forms; the field list is that of an already accepted descriptor)
            if entry == "api_one_string" and shape not in ("one_field", "no_field"):
                continue
            if entry == "descriptor_extend" and shape not in ("one_field", "two_fields"):
                continue
            if entry.startswith("grouped") and shape != "no_field":
                continue  # (the name of the group is the only text a grouped record defines itself; its members are definitions of their own)
            if shape == "one_field" and entry != "avro_schema":
                for part in range(NPART):
                    pack.add(make_gate(entry, shape, part))
            else:
                pack.add(make_gate(entry, shape))

    def run_partition(tier):
        st, _, _ = solver.valid([], z3.Or(*[part_cond(i) for i in range(NPART)]))
        return Result("C06.partition", st, "" if st == "proved" else "the type-text partition used to split the gate obligations is not exhaustive", paths=1)

    pack.add(Obligation("C06.partition", run_partition, mode="lemma"))
    pack.case_analyses.append("descriptor shapes {0, 1, 2 distinct, 2 equal} fields x entry points {api, stream, json, avro doc, avro schema}: finite case analysis; every name, field name and field type is an unconstrained symbolic string. "
                              "Generalisation to wider descriptors rests on the loop of _generate_record_class treating each field independently (stated assumption: alpha-equivalence, DESIGN 6/C01-L4)")

    def run_lemma(tier):
        x = z3.String("x")
        letter = z3.Union(z3.Range("a", "z"), z3.Range("A", "Z"))
        alnum = z3.Union(letter, z3.Range("0", "9"), z3.Re("_"))
        ident = z3.Concat(letter, z3.Star(alnum))
        image = z3.Concat(ident, z3.Star(z3.Concat(z3.Re("_"), ident)))  # ident(/ident)* with every '/' replaced by '_'
        st, _, _ = solver.valid([z3.InRe(x, image)], z3.InRe(x, IDENT))
        return Result("C06.lemma.classname", st if st != "refuted" else "refuted", "image of the type-name grammar under '/'->'_' is not inside the identifier grammar" if st != "proved" else "", paths=1)

    pack.add(Obligation("C06.lemma.classname", run_lemma, mode="lemma"))

    # ---- 4. other kinds than text in the name positions (to_str converts; None must be rejected)
    for kind, val in (("none_name", (None, [("string", "a")])), ("none_field", ("t/x", [("string", None)])), ("int_field", ("t/x", [("string", 5)])), ("bytes_field_newline", ("t/x", [("string", b"a\n")])), ("bytes_name", (b"t/x\n", [("string", "a")])),
                      ("list_type", ("t/x", [(["string"], "a")])), ("empty_name", ("", [("string", "a")]))):
        name = f"C06.kind[{kind}]"

        def run(tier, val=val, name=name):
            return prove_paths(name, lambda: it.call(RD, [val[0], list(val[1])], {}), lambda p: (p.kind == "raise", f"accepted: {p.value!r}"), lambda m, p: {"entry": "api", "name": repr(val[0]), "fields": repr(val[1]), "literal": True}, allow_raise=None)

        pack.add(Obligation(name, run, replay=lambda w: {"call": "c06_definition_literal", "args": w}, functions=FU_GATE))

    # ---- 5. dynamic-code sites are exactly the enumerated ones
    def run_sites(tier):
        import glob
        import os

        from pyvc.obligations import REPO

        expected = {("flow/record/base.py", "_generate_record_class", "exec"), ("flow/record/stream.py", "__init__", "compile"), ("flow/record/stream.py", "rewrite", "exec"),
                    ("flow/record/selector.py", "__init__", "compile"), ("flow/record/selector.py", "match", "eval"), ("flow/record/tools/geoip.py", "main", "eval")}
        found = set()
        for f in glob.glob(os.path.join(REPO, "flow/record/**/*.py"), recursive=True):
            tree = ast.parse(open(f).read())
            rel = os.path.relpath(f, REPO)
            for fnode in ast.walk(tree):
                if isinstance(fnode, (ast.FunctionDef, ast.Lambda)):
                    for n in ast.walk(fnode):
                        if isinstance(n, ast.Call) and isinstance(n.func, ast.Name) and n.func.id in ("exec", "eval", "compile", "__import__"):
                            found.add((rel, getattr(fnode, "name", "<lambda>"), n.func.id))
            for n in tree.body:
                for c in ast.walk(n) if not isinstance(n, (ast.FunctionDef, ast.ClassDef)) else []:
                    if isinstance(c, ast.Call) and isinstance(c.func, ast.Name) and c.func.id in ("exec", "eval", "compile"):
                        found.add((rel, "<module>", c.func.id))
        found = {x for x in found if not (x[1] in ("__init__",) and x[2] == "compile" and x[0].endswith("selector.py")) or True}
        extra = {x for x in found if x not in expected and not any(x[0] == e[0] and x[2] == e[2] for e in expected)}
        if extra:
            return Result("C06.exec_sites", "undecided", f"new dynamic-code site(s) {sorted(extra)}: whether text from a definition can reach them is not decided by this pack")
        return Result("C06.exec_sites", "proved", paths=len(found))

    # ---- 4.1 field type texts that are NOT field types although they occur in the whitelist's name space: package names (net, net.ipv4, ...) in scalar and list form
    for ttext in ("net", "net[]", "net.ipv4", "net.ipv4[]", "net.tcp[]", "net.udp[]", "net.ip[]", "fieldtypes[]", "net.[]", ".string", "string.", "net..ipaddress"):
        for entry in ("api", "stream", "json"):
            name = f"C06.type[{entry}, field type {ttext!r}]"

            def th(ttext=ttext, entry=entry):
                try:
                    d = ENTRIES[entry]("c06/t", [(ttext, "a")])
                except PyRaise as e:
                    return "rejected", e.cls_name
                return "accepted", repr(d)

            pack.add(Obligation(name, lambda tier, name=name, th=th, ttext=ttext: prove_paths(name, th, lambda p, ttext=ttext: (p.value[0] == "rejected", f"a definition whose field type is {ttext!r} (not on the whitelist) was accepted: {p.value[1]}")),
                                replay=lambda w, entry=entry, ttext=ttext: {"call": "c06_definition", "args": {"entry": entry, "name": "c06/t", "fields": [[ttext, "a"]]}}, functions=FU_GATE, mode="representative non-types from the whitelist's name space"))

    # ---- 4.2 a field name that occurs twice: every occurrence's type is checked (a bad type cannot hide behind a later, valid occurrence)
    for fields in ([("os.system", "a"), ("string", "a")], [("string", "a"), ("__import__('os')", "a"), ("string", "a")], [("nosuchtype", "b"), ("varint", "a"), ("string", "b")]):
        for entry in ("api", "stream", "json"):
            name = f"C06.dup[{entry}, {fields}]"

            def th(fields=fields, entry=entry):
                try:
                    d = ENTRIES[entry]("c06/dup", list(fields))
                except PyRaise as e:
                    return "rejected", e.cls_name
                return "accepted", [tuple(f) for f in it.call(it.getattr_(d, "get_field_tuples"), [], {})]

            pack.add(Obligation(name, lambda tier, name=name, th=th, fields=fields: prove_paths(name, th, lambda p, fields=fields: (p.value[0] == "rejected", f"the definition {fields} (a field type outside the whitelist) was accepted: {p.value[1]}")),
                                replay=lambda w, entry=entry, fields=fields: {"call": "c06_definition", "args": {"entry": entry, "name": "c06/dup", "fields": [list(f) for f in fields]}}, functions=FU_GATE, mode="representative definitions with a repeated field name"))

    # ... and when all occurrences are valid: the record has exactly the declared fields (or the definition is rejected)
    def th_dup_valid():
        try:
            D = it.call(RD, ["c06/dup", [("string", "a"), ("varint", "a"), ("string", "b")]], {})
        except PyRaise as e:
            return "rejected", None, None
        slots = [s_ for s_ in it.getattr_(it.getattr_(D, "recordType"), "__slots__") if s_ not in RESERVED]
        return "accepted", slots, [n_ for _, n_ in it.call(it.getattr_(D, "get_field_tuples"), [], {})]

    pack.add(Obligation("C06.dup.fields[the same field name declared twice with valid types]", lambda tier: prove_paths("C06.dup.fields[the same field name declared twice with valid types]", th_dup_valid,
                        lambda p: (p.value[0] == "rejected" or p.value[1] == p.value[2], f"accepted; the record has the fields {p.value[1]}, the descriptor declares {p.value[2]}")),
                        replay=lambda w: {"call": "c06_dup_fields", "args": {}}, functions=FU_GATE, mode="the representative definition"))

    # ---- 4a. a definition that arrives WITHOUT a field list (fields = nil / null): its name text must still be a type name - it is never taken for the
    #          deprecated one-string definition form ("name\ntype field") and parsed
    def entry_avro_doc_text(name_text, fields_v):
        # an Avro schema whose documentation text is the JSON document [<name text>, null] (the field list is missing)
        import json as _json

        avro = L.import_module("flow.record.adapter.avro")
        return it.call(avro.g["schema_to_descriptor"], [{"type": "record", "name": "x", "namespace": "", "fields": [], "doc": _json.dumps([name_text, None])}], {})

    ENTRIES["avro_doc_text"] = entry_avro_doc_text
    for entry in ("stream", "json", "avro_doc_text"):
        for label, name_text in (("a type name followed by lines of 'type field'", "c06/y\nstring a\nvarint b"), ("a plain valid type name", "c06/y"), ("a name with a trailing definition line", "c06/y\nos.system a")):
            name = f"C06.nofields[{entry}, {label}]"

            def th(entry=entry, name_text=name_text):
                try:
                    d = ENTRIES[entry](name_text, None)
                except PyRaise as e:
                    return "rejected", e.cls_name
                return "accepted", it.getattr_(d, "name") if isinstance(d, PObj) else repr(d)

            pack.add(Obligation(name, lambda tier, name=name, th=th, name_text=name_text: prove_paths(name, th, lambda p, name_text=name_text, entry=entry: (p.value[0] == "rejected" or (p.value[1] == name_text and "\n" not in name_text) or (entry == "avro_doc_text" and p.value[1] == "x"), f"a definition without a field list whose name text is {name_text!r} was accepted as the type {p.value[1]!r}")),
                                replay=lambda w, entry=entry, name_text=name_text: {"call": "c06_nofields", "args": {"entry": entry, "name": name_text}}, functions=FU_GATE, mode="representative name texts"))

    # ---- 4b. what a reader has already accepted never lets a later definition in unchecked: crafted descriptor frames whose name and
    #          unseparated field text (and therefore identifier hash) equal those of a legitimate definition read before
    LEGIT = ("c06/t", [("uint16", "a"), ("string", "b")])
    CRAFTED = [[("16bstring", "auint")], [("int16", "au"), ("string", "b")], [("uint16", "a"), ("ring", "bst")], [("uint16", "a"), ("g", "bstrin")]]
    for crafted in CRAFTED:
        name = f"C06.history[after {LEGIT[1]}, a frame defining {crafted} (same hash text)]"

        def th(crafted=crafted):
            def frame(fields):
                return MPBytes(("arr", [("leaf", 2), ("arr", [("leaf", LEGIT[0]), ("arr", [("arr", [("leaf", t), ("leaf", f)]) for t, f in fields])])]))

            packer = it.call(pk.g["RecordPacker"], [], {})
            d1 = it.call(it.getattr_(packer, "unpack_obj"), [14, frame(LEGIT[1])], {})
            it.call(it.getattr_(packer, "register"), [d1], {})  # (what RecordStreamReader.__iter__ does with a descriptor frame)
            try:
                d2 = it.call(it.getattr_(packer, "unpack_obj"), [14, frame(crafted)], {})
            except PyRaise as e:
                return "rejected", e.cls_name
            return "accepted", [tuple(f) for f in it.call(it.getattr_(d2, "get_field_tuples"), [], {})] if isinstance(d2, PObj) else repr(d2)

        pack.add(Obligation(name, lambda tier, name=name, th=th, crafted=crafted: prove_paths(name, th, lambda p: (p.value[0] == "rejected", f"a definition with a field type outside the whitelist was accepted (as {p.value[1]!r}) because a definition with the same identifier was read before"), lambda m, p: {}),
                            replay=lambda w, crafted=crafted: {"call": "c06_history", "args": {"legit": [list(f) for f in LEGIT[1]], "crafted": [list(f) for f in crafted]}}, functions=("flow.record.packer:RecordPacker.unpack_obj", "flow.record.packer:RecordPacker.register", "flow.record.base:RecordDescriptor._unpack"),
                            mode="concrete two-frame histories (representative collisions of the unseparated hash text)"))

    pack.add(Obligation("C06.exec_sites", run_sites, functions=(), mode="structural"))

    # ---- canary and CPython conformance
    def run_canary(tier):
        lower_only = z3.Concat(z3.Range("a", "z"), z3.Star(z3.Union(z3.Range("a", "z"), z3.Range("0", "9"), z3.Re("_"))))
        return prove_paths("C06.canary", lambda: it.call(base.g["is_valid_field_name"], [SStr(fn)], {}), lambda p: z3.InRe(fn, lower_only) if p.value is True else True, lambda m, p: {"fname": mv(m, fn), "check_reserved": True}, allow_raise=None)

    pack.add(Obligation("C06.canary", run_canary, kind="canary"))

    SAMPLES = ["a", "A9_", "_a", "a\n", "a b", "", "9a", "a-b", "é", "_generated", "_version", "if", "RECORD_VERSION", "a" * 300, "a\x00", "a;b", "ıd", "K"]
    TYPES = ["string", "string[]", "string[][]", "varint ", "os.system", "net.ipaddress", "net.ipaddress[]", "net", "", "[]", "dynamic", "string\n", "typedlist", "uint16", "record[]", "net.ipv4", "net.tcp.Port"]

    def run_cross(tier):
        mine, reqs = [], []
        for s_ in SAMPLES:
            for cr in (True, False):
                p = it.explore(lambda: it.call(base.g["is_valid_field_name"], [s_], {"check_reserved": cr}))[0]
                mine.append("raise:" + exc_name(p) if p.kind == "raise" else repr(p.value))
                reqs.append({"call": "c06_eval", "args": {"what": "field", "value": s_, "check_reserved": cr}})
        for t_ in TYPES:
            p = it.explore(lambda: it.call(base.g["fieldtype"], [t_], {}))[0]
            mine.append("raise:" + exc_name(p) if p.kind == "raise" else "ok:" + (p.value.name if isinstance(p.value, PClass) else repr(p.value)))
            reqs.append({"call": "c06_eval", "args": {"what": "type", "value": t_}})
        for nme in ["a", "a/b", "a/", "/a", "a//b", "a\n", "a b", "A_1/b2", "", "1a", "a/1", "é"]:
            p = it.explore(lambda: it.call(RD, [nme, [("string", "x")]], {}))[0]
            mine.append("raise:" + exc_name(p) if p.kind == "raise" else "ok")
            reqs.append({"call": "c06_eval", "args": {"what": "name", "value": nme}})
        native = native_batch(reqs)
        bad = [(r["args"], a, b.get("outcome", b)) for r, a, b in zip(reqs, mine, native) if a != b.get("outcome")]
        return Result("C06.cross", "proved" if not bad else "refuted", f"{len(bad)} disagreement(s): {bad[:4]}" if bad else "", paths=len(reqs))

    pack.add(Obligation("C06.cross", run_cross, kind="cross"))

    # ---- bounded stand-in: hostile definitions through every real entry point, natively (exec text captured by shadowing exec in base's namespace)
    def run_hostile(tier):
        args = {"seed": seed, "n": 150 if tier == "quick" else 1500}
        res = native_replay({"call": "c06_hostile", "args": args})
        r = Result("C06.hostile_definitions", "refuted" if res.get("violates") else ("proved" if "error" not in res else "error"), str(res.get("detail") or res.get("error") or "")[:300], paths=res.get("cases", 0))
        r.native, r.confirmed, r.request, r.witness = res, bool(res.get("violates")), {"call": "c06_hostile", "args": args}, res.get("witness")
        return r

    pack.add(Obligation("C06.hostile_definitions", run_hostile, kind="bounded", note="native sweep: generated hostile / boundary names, field names and types through RecordDescriptor(), a descriptor frame in a stream, a JSON descriptor line and an Avro schema; "
                        "accept/reject compared with the reference grammar, the text handed to exec captured and validated against the AST allow-list; bound: 150 (quick) / 1500 (thorough) definitions per entry point", functions=FU_GATE))
    pack.not_covered = ["descriptors wider than two fields are covered by the stated per-field independence argument, not by a VC", "code points above U+2FFFF (outside z3's alphabet)",
                        "CPython's tokenizer: a string of the identifier grammar is assumed to lex as one NAME/keyword token", "the -E/--exec-expression and CompiledSelector exec/eval sites execute the user's own text by design (not definition text)"]
    pack.assumptions += ["json.loads returns some JSON value (the Avro 'doc' entry point is proved for arbitrary text in the name / type / field-name positions of a well-shaped value; other shapes end in to_str()/unpacking errors)",
                         "functools.lru_cache on _generate_record_class / fieldtype is the identity (deterministic, no side effects)"]
    return pack

"""C16 - rdump output is the specified slice of the filtered input.

The real tools/rdump.py main(argv) is executed (argparse natively on the concrete argument vector, everything else symbolically) over a virtual file system with
several source files, against a reference pipeline written from the property statement:

      output == project(override(slice(filter(concat(intact prefix of every source), selector), SKIP, COUNT)))      (COUNT absent or 0: no limit)

  pipeline   option combinations of --skip / -c / -s / -n / -F / -X / --record-source / --record-classification / --multi-timestamp, writer URIs for the record stream,
             JSON lines, CSV and line writers and the output modes: the records handed to the writer (decoded back from what it wrote) are the reference pipeline's,
             all other values unchanged (symbolic text values); without options the output is the input
  isolation  record_stream: a missing, truncated or garbage source at every position among good ones contributes its intact prefix and does not stop later sources
  engines    compiled and interpreted selector give the same output
  finally    the writer is flushed and closed on every exit
"""
import datetime as _dt
import itertools
import types

import z3

from pyvc.models.ext import CsvRow
from pyvc.models.jsonm import JSText

from .streamlib import *  # noqa

UTC = _dt.timezone.utc
GEN = _dt.datetime(2020, 1, 2, 3, 4, 5, tzinfo=UTC)
T1, T2 = _dt.datetime(2001, 1, 1, tzinfo=UTC), _dt.datetime(2002, 2, 2, tzinfo=UTC)


def build(tier="quick", seed=0):
    it, L, base, pk, st = mods()
    rd_mod = L.import_module("flow.record.tools.rdump")
    jf = L.import_module("flow.record.adapter.jsonfile")
    pack = new_pack("C16", "rdump output is the specified slice of the filtered input")
    RD = base.g["RecordDescriptor"]
    FU = ("flow.record.tools.rdump:main", "flow.record.stream:record_stream", "flow.record.stream:RecordFieldRewriter.rewrite", "flow.record.stream:RecordFieldRewriter.record_descriptor_for_fields", "flow.record.base:RecordAdapter",
          "flow.record.base:iter_timestamped_records", "flow.record.selector:make_selector", "flow.record.adapter.stream:StreamWriter.write", "flow.record.adapter.stream:StreamReader.__iter__")
    sv = [z3.String(f"s{i}") for i in range(6)]

    def fresh():
        it.vfs, it.vfs_auto, it.vfs_events, it.vfs_dirs = {}, True, [], set()

    def make_sources(layout):
        """layout: list of source specs; returns (argv paths, per-source list of intact records)"""
        A = it.call(RD, ["c16/a", [("varint", "n"), ("string", "s"), ("datetime", "ts"), ("datetime", "ts2")]], {})
        B = it.call(RD, ["c16/b", [("varint", "n"), ("string", "t")]], {})
        A2 = it.call(RD, ["c16/a", [("varint", "n"), ("string", "s"), ("string", "extra")]], {})  # another generation of the type c16/a: same name, other fields
        k = 0
        paths, intact = [], []
        for si, spec in enumerate(layout):
            path = f"/abs/src{si}.records" + (".gz" if spec.endswith("~") else "")
            foreign = spec.endswith("^")  # a frame in the middle that is well-formed msgpack but not of this format (a foreign extension type): the decoder raises a plain Exception
            spec = spec.rstrip("^")
            paths.append(path)
            if spec == "missing":
                intact.append([])
                continue
            if spec == "garbage":
                it.vfs[path] = AbsFile(it, [b"<html>this is not a record stream</html>"], name=path, mode="rb")
                intact.append([])
                continue
            fp = AbsFile(it, mode="wb")
            w = it.call(st.g["RecordStreamWriter"], [fp], {})
            recs = []
            for kind in spec.replace("!", "").replace("~", ""):
                if kind == "+":  # the source is a concatenation of streams (cat a b > c, appended runs): a new writer starts here, with its own header frame
                    w = it.call(st.g["RecordStreamWriter"], [fp], {})
                    continue
                if kind == "a":
                    r = it.call(A2, [], {"n": k, "s": SStr(sv[k % 6]), "extra": f"x{k}", "_generated": GEN})
                else:
                    r = it.call(A, [], {"n": k, "s": SStr(sv[k % 6]), "ts": (None if k == 2 else T1), "ts2": (None if k % 3 == 1 or k == 2 else T2), "_generated": GEN}) if kind == "A" else it.call(B, [], {"n": k, "t": f"t{k}", "_generated": GEN})
                k += 1
                it.call(it.getattr_(w, "write"), [r], {})
                recs.append(r)
            content = fp.content()
            if foreign:
                import struct as _struct

                from spec import msgpack_spec as _M

                body = _M.encode(("ext", 5, b"not ours"))
                keep = 2 + 2 * 2  # header (2 writes), then descriptor and first record (2 writes each): what follows the foreign frame is not reached
                content = content[:keep] + [_struct.pack(">I", len(body)), body] + content[keep:]
                recs = recs[:1]
            if spec.endswith("!"):  # truncated inside the body of the last record frame
                last = content[-1]
                cut = z3.Int(f"cut{si}")
                it.assume(z3.And(cut >= 0, cut < last.length)) if not isinstance(last.length, int) else None
                content = content[:-1] + [MPTrunc(last, cut if not isinstance(last.length, int) else last.length // 2)]
                recs = recs[:-1]
            if spec.endswith("~"):  # gzip-compressed, the file ends at a flush point behind the last record: no end-of-stream marker (the writing process died)
                from pyvc.models.ext import MagicSeg

                content = [MagicSeg("gzip")] + content
            it.vfs[path] = AbsFile(it, content, name=path, mode="rb")
            if spec.endswith("~"):
                it.vfs[path].codec_truncated = True
            intact.append(recs)
        return paths, intact

    SELECTORS = {None: lambda r: True, "r.n >= 2": lambda r: it.unbase(r.attrs["n"]) >= 2, "r.n != 3 and has_field(r, 's')": lambda r: it.unbase(r.attrs["n"]) != 3 and "s" in r.attrs, "name(r) == 'c16/b' or r.n == 0": lambda r: r.cls.name == "c16_b" or it.unbase(r.attrs["n"]) == 0,
                 "r._source == None": lambda r: r.attrs.get("_source") is None, "r.t is not None": lambda r: True, "(r.t == 't1') == False": lambda r: it.unbase(r.attrs.get("t")) != "t1",
                 "r.nosuch == 1": lambda r: False, "r.n >= 1": lambda r: it.unbase(r.attrs["n"]) >= 1, "any(x == r.n for x in (0, 2, 3, 5))": lambda r: it.unbase(r.attrs["n"]) in (0, 2, 3, 5)}

    def reference(intact, opts):
        recs = [r for src in intact for r in src]
        recs = [r for r in recs if SELECTORS[opts.get("selector")](r)]
        skip, count = opts.get("skip", 0), opts.get("count")
        recs = recs[skip:(skip + count) if count else None]
        out = []
        for r in recs:
            vals = {k: r.attrs[k] for k in r.cls.find("__slots__")}
            fields = [tuple(f) for f in it.call(it.getattr_(it.getattr_(r, "_desc"), "get_field_tuples"), [], {})]
            if opts.get("record_source") is not None:
                vals["_source"] = opts["record_source"]
            if opts.get("record_classification") is not None:
                vals["_classification"] = opts["record_classification"]
            fsel, ex = opts.get("fields"), opts.get("exclude") or []
            if fsel:
                fields = [(dict((n, t) for t, n in fields)[n], n) for n in fsel if n in [m for _, m in fields] and n not in ex]
            elif ex:
                fields = [(t, n) for t, n in fields if n not in ex]
            expanded = [(fields, vals)]
            if opts.get("multi_timestamp"):
                dts = [n for t, n in fields if t == "datetime"]
                if dts:
                    expanded = []
                    for n in dts:
                        v2 = dict(vals)
                        v2["ts"], v2["ts_description"] = vals[n], n
                        f2 = [("datetime", "ts"), ("string", "ts_description")] + [(t, m) for t, m in fields if m not in ("ts", "ts_description")]
                        expanded.append((f2, v2))
            for f, v in expanded:
                out.append((it.getattr_(it.getattr_(r, "_desc"), "name"), f, v))
        return out

    def argv_of(opts, paths, out_uri):
        a = []
        if opts.get("selector"):
            a += ["-s", opts["selector"]]
        if opts.get("no_compile"):
            a += ["-n"]
        if opts.get("skip"):
            a += ["--skip", str(opts["skip"])]
        if opts.get("count") is not None:
            a += ["-c", str(opts["count"])]
        if opts.get("fields"):
            a += ["-F", ",".join(opts["fields"])]
        if opts.get("exclude"):
            a += ["-X", ",".join(opts["exclude"])]
        if opts.get("record_source") is not None:
            a += ["--record-source", opts["record_source"]]
        if opts.get("record_classification") is not None:
            a += ["--record-classification", opts["record_classification"]]
        if opts.get("multi_timestamp"):
            a += ["--multi-timestamp"]
        if opts.get("mode"):
            a += ["-m", opts["mode"]]
        if out_uri:
            a += ["-w", out_uri]
        return a + list(paths)

    def run_main(argv):
        out_text, out_bin = AbsFile(it, mode="w", name="<stdout>"), AbsFile(it, mode="wb", name="<stdout.buffer>")
        out_text.buffer = out_bin
        L.module_models["sys"].stdout = out_text
        try:
            rc = it.call(rd_mod.g["main"], [list(argv)], {})
        finally:
            del L.module_models["sys"].stdout
        return rc, out_text, out_bin

    def decode_output(kind, f):
        """observations (name, field names, values dict-ish) of what a writer wrote"""
        if kind == "stream":
            rdr = it.call(st.g["RecordStreamReader"], [AbsFile(it, f.content())], {})
            return [(it.getattr_(it.getattr_(o, "_desc"), "name"), [tuple(x) for x in it.call(it.getattr_(it.getattr_(o, "_desc"), "get_field_tuples"), [], {})], dict(o.attrs)) for o in it.iterate(rdr)]
        if kind == "json":
            out = []
            for ln in f.content():
                if isinstance(ln, JSText):
                    d = dict(ln.tree[1])
                    if d.get("_type", ("leaf", None))[1] == "recorddescriptor":
                        continue
                    out.append((None, [(None, k) for k in d if not k.startswith("_")], {k: v[1] if v[0] == "leaf" else v for k, v in d.items()}))
            return out
        if kind == "csv":
            out, header = [], None
            for row in f.content():
                if isinstance(row, CsvRow):
                    if row.header:
                        header = row.cells
                    else:
                        out.append((None, [(None, k) for k in header if not k.startswith("_")], dict(zip(header, row.cells))))
            return out
        raise KeyError(kind)

    def compare(got, want, strict_types=True):
        if len(got) != len(want):
            return False, f"{len(got)} records written, the reference pipeline gives {len(want)}"
        conj = []
        for i, ((gn, gf, gv), (wn, wf, wv)) in enumerate(zip(got, want)):
            if gn is not None and gn != wn:
                return False, f"record {i}: type {gn}, expected {wn}"
            if [n for _, n in gf] != [n for _, n in wf] or (strict_types and gn is not None and gf != wf):
                return False, f"record {i}: fields {gf}, expected {wf}"
            for t, n in wf + [("string", "_source"), ("string", "_classification")]:
                if n not in gv:
                    continue
                if not strict_types and not isinstance(it.unbase(wv[n]), (int, str, SInt, SStr, type(None))):
                    continue  # text-oriented writers render other kinds (timestamps ...) as text: their rendering is C14 / C20
                g, why = obs_eq(deep_obs(it, it.unbase(wv[n]) if not isinstance(wv[n], PObj) or wv[n].has_base else wv[n]), deep_obs(it, it.unbase(gv[n]) if not isinstance(gv[n], PObj) or gv[n].has_base else gv[n]), f"record {i} field {n}")
                if g is False:
                    return False, why
                if g is not True:
                    conj.append(g)
        return (z3.And(*conj) if conj else True), "a value differs"

    # ------------------------------------------------------------------ pipeline over option combinations (record stream writer: full fidelity)
    LAYOUT = ["ABA", "BA", "A"]
    LAYOUT_CAT = ["A+BA", "B+A+A"]
    OPTS = [{}, {"skip": 1}, {"skip": 2, "count": 2}, {"count": 1}, {"count": 0}, {"skip": 7}, {"selector": "r.n >= 2"}, {"selector": "r.n >= 2", "skip": 1, "count": 2}, {"selector": "r.n >= 2", "no_compile": True, "skip": 1, "count": 2},
            {"selector": "r.n != 3 and has_field(r, 's')", "no_compile": True}, {"selector": "name(r) == 'c16/b' or r.n == 0"}, {"selector": "r.nosuch == 1"}, {"fields": ["s", "n"]}, {"exclude": ["ts", "ts2"]}, {"fields": ["n", "s", "nosuch"], "exclude": ["s"]},
            {"selector": "any(x == r.n for x in (0, 2, 3, 5))", "no_compile": True}, {"selector": "any(x == r.n for x in (0, 2, 3, 5))"}, {"record_source": "src-x"}, {"record_classification": "cls-y", "record_source": ""}, {"multi_timestamp": True}, {"multi_timestamp": True, "exclude": ["ts2"], "skip": 1}, {"selector": "r.n >= 1", "skip": 1, "count": 3, "fields": ["n", "ts"], "record_source": "z", "multi_timestamp": True}]

    # the selector looks at the records AS READ (metadata overrides are applied to what is written); identity tests and compared comparison results on a field that a
    # record type lacks mean the same to both engines
    OPTS += [{"selector": "r._source == None", "record_source": "merged"}, {"selector": "r._source == None", "record_source": "merged", "no_compile": True}, {"selector": "r._source == None", "record_classification": "c", "skip": 1, "count": 3},
             {"selector": "r.t is not None"}, {"selector": "r.t is not None", "no_compile": True}, {"selector": "(r.t == 't1') == False"}, {"selector": "(r.t == 't1') == False", "no_compile": True}]

    def th_pipeline(opts):
        def th():
            fresh()
            paths, intact = make_sources(LAYOUT)
            rc, _, _ = run_main(argv_of(opts, paths, "/abs/out.records"))
            f = it.vfs.get("/abs/out.records")
            return decode_output("stream", f) if f is not None else [], reference(intact, opts), f is not None and f.closed
        return th

    for opts in OPTS:
        name = f"C16.pipeline[{opts or 'no options'}]"
        pack.add(Obligation(name, lambda tier, name=name, opts=opts: prove_paths(name, th_pipeline(opts), lambda p: (compare(p.value[0], p.value[1]) if p.value[2] else (False, "the output was not closed")), lambda m_, p: {}, allow_raise=("UnicodeEncodeError", "error")),
                            replay=lambda w, opts=opts: {"call": "c16_pipeline", "args": {"opts": opts}}, functions=FU, mode="representative option combinations over three source files (6 records of two types), symbolic text values"))
    def th_pipeline_cat(opts):
        def th():
            fresh()
            paths, intact = make_sources(LAYOUT_CAT)
            rc, _, _ = run_main(argv_of(opts, paths, "/abs/out.records"))
            f = it.vfs.get("/abs/out.records")
            return decode_output("stream", f) if f is not None else [], reference(intact, opts), f is not None and f.closed
        return th

    for opts in ({}, {"skip": 1, "count": 3}, {"selector": "r.n >= 2", "no_compile": True}, {"selector": "r.n >= 2"}, {"record_source": "src-x"}):
        name = f"C16.pipeline[sources that are concatenated streams, {opts or 'no options'}]"
        pack.add(Obligation(name, lambda tier, name=name, opts=opts: prove_paths(name, th_pipeline_cat(opts), lambda p: (compare(p.value[0], p.value[1]) if p.value[2] else (False, "the output was not closed")), lambda m_, p: {}, allow_raise=("UnicodeEncodeError", "error")),
                            replay=lambda w, opts=opts: {"call": "c16_pipeline", "args": {"opts": opts, "layout": LAYOUT_CAT}}, functions=FU, mode="two source files, each a concatenation of record streams (a header frame in the middle of the file)"))
    # two generations of one type name (same name, other fields) in the sources: every record is projected from ITS OWN field list, whatever came before
    LAYOUT_GEN = ["AaA", "aBA"]

    def th_pipeline_gen(opts):
        def th():
            fresh()
            paths, intact = make_sources(LAYOUT_GEN)
            rc, _, _ = run_main(argv_of(opts, paths, "/abs/out.records"))
            f = it.vfs.get("/abs/out.records")
            return decode_output("stream", f) if f is not None else [], reference(intact, opts), f is not None and f.closed
        return th

    for opts in ({}, {"fields": ["s", "n", "extra"]}, {"exclude": ["ts", "s"]}, {"fields": ["n", "extra", "ts2"], "selector": "r.n >= 1"}, {"exclude": ["extra"], "multi_timestamp": True}):
        name = f"C16.pipeline[two generations of one type name in the sources, {opts or 'no options'}]"
        pack.add(Obligation(name, lambda tier, name=name, opts=opts: prove_paths(name, th_pipeline_gen(opts), lambda p: (compare(p.value[0], p.value[1]) if p.value[2] else (False, "the output was not closed")), lambda m_, p: {}, allow_raise=("UnicodeEncodeError", "error")),
                            replay=lambda w, opts=opts: {"call": "c16_pipeline", "args": {"opts": opts, "layout": LAYOUT_GEN}}, functions=FU, mode="two source files holding records of two same-name types with different fields"))
    pack.case_analyses.append(f"{len(OPTS)} option combinations (skip, count incl. 0, selectors on both engines, -F, -X, metadata overrides, --multi-timestamp and their combination)")

    # ------------------------------------------------------------------ isolation of bad sources at every position
    BAD = ["missing", "garbage", "AB!", "AB~", "AA^"]
    for bad in BAD:
        for pos in range(3):
            layout = ["AB", "BA"]
            layout.insert(pos, bad)
            name = f"C16.isolate[{bad} source at position {pos}]"

            def th(layout=layout):
                fresh()
                paths, intact = make_sources(layout)
                rc, _, _ = run_main(argv_of({}, paths, "/abs/out.records"))
                f = it.vfs.get("/abs/out.records")
                return decode_output("stream", f) if f is not None else [], reference(intact, {}), f is not None and f.closed

            pack.add(Obligation(name, lambda tier, name=name, th=th: prove_paths(name, th, lambda p: (compare(p.value[0], p.value[1]) if p.value[2] else (False, "the output was not closed")), lambda m_, p: {}, allow_raise=("UnicodeEncodeError", "error")),
                                replay=lambda w, bad=bad, pos=pos: {"call": "c16_isolate", "args": {"bad": bad, "pos": pos}}, functions=FU, mode="every position of a missing / garbage / truncated (symbolic cut offset) source among two good ones"))

    # ------------------------------------------------------------------ the same records whatever the writer / mode
    def th_writers(opts):
        def th():
            outs = {}
            for label, uri, mode, kind in (("stream", "/abs/out.records", None, "stream"), ("jsonfile", "jsonfile:///abs/out.json", None, "json"), ("csvfile", "csvfile:///abs/out.csv", None, "csv"), ("mode jsonlines", None, "jsonlines", "json"), ("mode csv", None, "csv", "csv")):
                fresh()
                paths, intact = make_sources(["AA", "A"])
                o = dict(opts)
                if mode:
                    o["mode"] = mode
                rc, out_text, out_bin = run_main(argv_of(o, paths, uri))
                f = it.vfs.get(uri.split("://")[-1]) if uri else out_text
                ref = reference(intact, opts)
                outs[label] = (decode_output(kind, f), ref)
                if kind == "csv":  # a header row per run of records of one type - a header that is repeated inside a run is a data row to every CSV parser
                    runs = sum(1 for i_, r_ in enumerate(ref) if i_ == 0 or (r_[0], r_[1]) != (ref[i_ - 1][0], ref[i_ - 1][1]))
                    outs[label + " (header rows)"] = (sum(1 for row in f.content() if isinstance(row, CsvRow) and row.header), runs)
            return outs
        return th

    def judge_writers(p):
        conj = []
        for label, (got, want) in p.value.items():
            if label.endswith("(header rows)"):
                if got != want:
                    return False, f"{label}: {got} header rows for {want} run(s) of records of one type"
                continue
            g, why = compare(got, want, strict_types=False)
            if g is False:
                return False, f"{label}: {why}"
            if g is not True:
                conj.append(g)
        return (z3.And(*conj) if conj else True), "a value differs"

    for opts in ({}, {"selector": "r.n >= 1", "skip": 1}, {"fields": ["n", "s"], "exclude": ["s"]}):
        name = f"C16.writers[{opts or 'no options'}: stream / jsonfile / csvfile / -m jsonlines / -m csv]"
        pack.add(Obligation(name, lambda tier, name=name, opts=opts: prove_paths(name, th_writers(opts), judge_writers, lambda m_, p: {}, allow_raise=("UnicodeEncodeError", "error")), replay=lambda w, opts=opts: {"call": "c16_writers", "args": {"opts": opts}}, functions=FU,
                            mode="five writers / modes, decoded from what each wrote (stdout modelled for the modes)"))

    # the same comparison on real files with the real csv / json modules (bounded stand-in: three option sets x six writers / modes)
    def run_writers_native(tier):
        bad, n = None, 0
        for opts in ({}, {"selector": "r.n >= 1", "skip": 1}, {"fields": ["n", "s"], "exclude": ["s"]}):
            res = native_replay({"call": "c16_writers", "args": {"opts": opts}}, timeout=600)
            n += 1
            if res.get("violates") or "error" in res:
                bad = (opts, res)
                break
        r = Result("C16.writers.native", "refuted" if bad and bad[1].get("violates") else ("proved" if not bad else "error"), str((bad[1].get("detail") or bad[1].get("error")) if bad else "")[:300], paths=n)
        if bad:
            r.native, r.confirmed, r.request, r.witness = bad[1], bool(bad[1].get("violates")), {"call": "c16_writers", "args": {"opts": bad[0]}}, {"opts": bad[0]}
        return r

    pack.add(Obligation("C16.writers.native", run_writers_native, kind="bounded", note="native run of rdump.main with every writer / mode on real files: the records written (and, for CSV, one header row per run of one type) against the reference pipeline; bound: 3 option sets x 6 writers / modes", functions=FU))

    # ------------------------------------------------------------------ every output mode hands the projection options to its writer
    def _spy(*a, **k):  # placeholder that stands for flow.record.RecordWriter inside rdump (modelled below)
        raise RuntimeError("model placeholder")

    def th_writer_uri(mode, extra):
        def th():
            from urllib.parse import parse_qsl, urlparse

            fresh()
            paths, intact = make_sources(["A"])
            seen = []
            orig = rd_mod.g["RecordWriter"]
            it.models[_spy] = lambda it_, uri, *a, **k: (seen.append(uri), it_.call(orig, [uri] + list(a), k))[1]
            rd_mod.g["RecordWriter"] = _spy
            try:
                run_main(["-m", mode] + list(extra) + paths)
            finally:
                rd_mod.g["RecordWriter"] = orig
            return [dict(parse_qsl(urlparse(it.unbase(u)).query)) for u in seen]
        return th

    for mode in ("csv", "line", "line-verbose"):  # (the writers that render a selection of fields themselves; the JSON writer prints the projected record as it is)
        for extra, want in ((["-F", "n,s"], {"fields": "n,s"}), (["-X", "ts,ts2"], {"exclude": "ts,ts2"}), (["-F", "n", "-X", "s"], {"fields": "n", "exclude": "s"})):
            name = f"C16.writer_options[-m {mode} {' '.join(extra)}]"
            pack.add(Obligation(name, lambda tier, name=name, mode=mode, extra=extra, want=want: prove_paths(name, th_writer_uri(mode, extra), lambda p, want=want: (len(p.value) == 1 and all(p.value[0].get(k_) == v for k_, v in want.items()), f"the writer of this mode is opened with the options {p.value}, the command line asks for {want}"), lambda m_, p: {}, allow_raise=("UnicodeEncodeError", "error")),
                                replay=lambda w, mode=mode, extra=extra, want=want: {"call": "c16_writer_options", "args": {"mode": mode, "extra": extra, "want": want}}, functions=FU[:1], mode="every output mode x three projection option sets; the URI handed to RecordWriter is observed"))

    # ------------------------------------------------------------------ --split: parts hold at most COUNT records and together are the output, also beyond 10**suffix-length parts
    def th_split(count, suffix_length, nrec):
        def th():
            fresh()
            paths, intact = make_sources(["A" * nrec])
            rc, _, _ = run_main(["--split", str(count), "--suffix-length", str(suffix_length), "-w", "/abs/out.records"] + paths)
            parts = sorted(p_ for p_ in it.vfs if p_.startswith("/abs/out."))
            got, sizes = [], []
            for p_ in parts:
                try:
                    recs = decode_output("stream", it.vfs[p_])
                except PyRaise:
                    recs = []  # (a trailing part without records: the known lazy-header finding of C17)
                sizes.append(len(recs))
                got += recs
            return got, reference(intact, {}), sizes, count
        return th

    def judge_split(p):
        got, want, sizes, count = p.value
        if any(sz > count for sz in sizes):
            return False, f"a part holds more than {count} records: {sizes}"
        if len(got) != len(want):
            return False, f"the parts hold {len(got)} records in {len(sizes)} files, {len(want)} were written (parts overwritten?)"
        return compare(sorted(got, key=lambda o: it.unbase(o[2]["n"])), want)

    for count, sl, nrec in ((2, 2, 5), (1, 1, 12), (3, 1, 7)):
        name = f"C16.split[--split {count} --suffix-length {sl}, {nrec} records]"
        pack.add(Obligation(name, lambda tier, name=name, count=count, sl=sl, nrec=nrec: prove_paths(name, th_split(count, sl, nrec), judge_split, lambda m_, p: {}, allow_raise=("UnicodeEncodeError", "error")), replay=lambda w, count=count, sl=sl, nrec=nrec: {"call": "c16_split", "args": {"count": count, "suffix_length": sl, "n": nrec}},
                            functions=FU, mode="concrete record counts incl. more parts than 10**suffix-length"))

    # ------------------------------------------------------------------ canary / bounded
    def run_canary(tier):
        def th():
            fresh()
            paths, intact = make_sources(LAYOUT)
            run_main(argv_of({"skip": 1}, paths, "/abs/out.records"))
            return decode_output("stream", it.vfs["/abs/out.records"]), reference(intact, {}), True  # judged against the pipeline WITHOUT the skip
        return prove_paths("C16.canary", th, lambda p: compare(p.value[0], p.value[1]), lambda m_, p: {}, allow_raise=("UnicodeEncodeError", "error"))

    pack.add(Obligation("C16.canary", run_canary, kind="canary"))

    def run_sweep(tier):
        args = {"seed": seed, "n": 60 if tier == "quick" else 1200}
        res = native_replay({"call": "c16_sweep", "args": args}, timeout=3000)
        r = Result("C16.rdump_sweep", "refuted" if res.get("violates") else ("proved" if "error" not in res else "error"), str(res.get("detail") or res.get("error") or "")[:300], paths=res.get("cases", 0))
        r.native, r.confirmed, r.request, r.witness = res, bool(res.get("violates")), {"call": "c16_sweep", "args": args}, res.get("witness")
        return r

    pack.add(Obligation("C16.rdump_sweep", run_sweep, kind="bounded", note="native runs of rdump.main on real files against the reference pipeline: random option combinations (skip, count, selector, -n, -F, -X, metadata overrides, --multi-timestamp, --split, writer URIs and modes) x generated multi-type inputs in "
                        "several files and compressions x every placement of missing / truncated / garbage sources; bound 60 (quick) / 1200 (thorough) runs", functions=FU))
    pack.assumptions += ["argparse runs natively on the concrete argument vector", "file-system / codec / csv / json / msgpack models", "COUNT absent or 0 means no limit (tests/test_regression.py::test_rdump_count_list documents '--count 0 should be ignored')"]
    pack.not_covered = ["process-level behaviour (exit codes, SIGPIPE handling, the console-script entry point)", "-E / --exec-expression and --list (only in the bounded sweep)", "option values beyond the representative combinations in the deductive part"]
    return pack

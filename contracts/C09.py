"""C09 - the interpreted selector is a sandbox.

Contracts on the real flow/record/selector.py (RecordContextMatcher):

  matches(rec)        ensures  self.functions == {name: value of the initial namespace that is callable}, values in Allowed
                               = FUNCTION_WHITELIST, str, repr, any, all, rec._desc.getfields;  nothing writes to it afterwards
  _eval(Call)         requires-before-invoke: callee in Allowed or a DynamicFieldtypeModule of a whitelisted path; otherwise raises
                      InvalidOperation *before* node.func or any argument is evaluated
  _eval(Attribute)    raises InvalidOperation when attr starts with "__", before the object expression is evaluated
  _eval(Name)         raises InvalidOperation for an unknown name that starts with "__"
  matches/eval/_eval  modifies nothing reachable from the record

The callee obligations are proved for *symbolic names*: node.func is a real ast node of every shape (Name; Attribute chains of
length 1..3 rooted in a Name; chains rooted in a call result, a constant, a subscript; non-name callees) whose identifiers are
unconstrained symbolic strings, in a namespace that additionally holds an arbitrary generator variable bound to an untrusted object.
"""
import ast

import z3

from .common import *  # noqa

HOSTILE = [
    "r.s.upper()", "lower(r.s).upper()", "'abc'.upper()", "any(f() for f in [r.s.upper])", "any(string() for string in [r.s.upper])", "1 in (f() for f in [r.tags.clear])", "'x' in (f('evil') for f in [r.tags.append])",
    "any(uint32(0) == 0 for uint32 in [r.tags.pop])", "r.__class__", "r.s.__len__()", "(lambda: 1)()", "str.upper('a')", "fields.__self__", "names(r).pop()", "r.tags.append('x')", "getattr(r, 's')", "eval('1')", "__import__('os')",
    "open('/etc/passwd')", "type(r)", "upper.__globals__", "r._desc.recordType()", "r.tags.clear() or True", "any(r.tags.pop() for x in [1])", "str(r.tags.append('y'))", "(r.tags.append)('z')", "[r.tags.append][0]('w')",
    "__class__", "__builtins__", "__dict__", "print(1)", "r.tags.sort()", "net.ipaddress.__init__('x')", "upper(s=r.tags.append('k'))", "r.tags.__setitem__(0, 'q')", "any(x.append('n') for x in [r.tags])", "len(r.tags)", "setattr(r, 'n', 2)", "r.n.__add__(1)",
    # a generator variable named like a double-underscore attribute does not make that attribute readable
    "any(r.__class__ for __class__ in [0])", "any(str(r.__init__.__globals__) != '' for __init__ in [0] for __globals__ in [0])", "any(True for __dict__ in [1]) and r.tags.__dict__", "any(r.s.__class__ == 1 for __class__ in [1])",
    "all(upper.__globals__ for __globals__ in [0])", "any(__class__ == 0 for __class__ in [0]) and r.__class__",
    # the helper functions take attribute NAMES as text: a double-underscore name is refused there like it is for r.__x__
    "field_contains(r, ['__slots__'], ['s'])", "field_equals(r, ['__class__'], ['x'])", "field_regex(r, ['__doc__'], '.')", "field_contains(r.tags, ['__doc__'], ['list'])", "field_equals(r, ['s', '__module__'], ['zzz'])",
    # a list / tuple display is evaluated element by element like everything else: a call or attribute access inside a display that mentions no name at all is still refused
    "r.s in ['abc'.upper(), 'abc']", "r.n in (1, (lambda: 2)())", "[().__class__] == r.tags", "r.s in [''.join(['a', 'b'])]", "('x'.__class__, 1) == (1, 2)", "r.s in ['%s' % ().__class__]", "[[].append(1)] == [None]",
    "repr.__self__", "str.__subclasses__()", "all.__call__([])", "any.__self__.eval('1')", "lower.__code__", "field_equals.__globals__['__builtins__']", "r.s.format(r)", "'{0.__class__}'.format(r)",
]
# these only look hostile: the callee that is invoked is the whitelisted field type of that name, never the generator variable (no refusal is demanded, only: nothing
# untrusted is invoked and the record is unchanged)
MAY_EVALUATE = {"any(uint32(0) == 0 for uint32 in [r.tags.pop])"}
ALLOWED_BUILTINS = (str, repr, any, all)


def build(tier="quick", seed=0):
    it, L = engine()
    sel = L.import_module("flow.record.selector")
    base = L.import_module("flow.record.base")
    WL = list(L.import_module("flow.record.whitelist").g["WHITELIST"])
    pack = new_pack("C09", "The interpreted selector is a sandbox")
    RCM, RD = sel.g["RecordContextMatcher"], base.g["RecordDescriptor"]
    FU = ("flow.record.selector:RecordContextMatcher.matches", "flow.record.selector:RecordContextMatcher.eval", "flow.record.selector:RecordContextMatcher._eval", "flow.record.selector:resolve_attr_path",
          "flow.record.selector:Selector.match", "flow.record.selector:FUNCTION_WHITELIST", "flow.record.base:DynamicFieldtypeModule.__getattr__", "flow.record.base:DynamicFieldtypeModule.__call__")
    WLRE = z3.Union(*[z3.Re(w) for w in WL])

    def mkrec():
        D = it.call(RD, ["c09/rec", [("varint", "n"), ("string", "s"), ("string[]", "tags")]], {})
        rec = it.call(D, [], {"n": 5, "s": "abc", "tags": ["a", "b"]})
        rec.desc_at_creation = D  # (record classes are memoised per (name, fields): a later descriptor of the same shape re-points cls._desc)
        return rec

    def allowed(fn, rec):
        if isinstance(fn, PFunc):
            return any(fn is f for f in sel.g["FUNCTION_WHITELIST"])
        if isinstance(fn, PBound):
            return fn.func.name == "getfields" and fn.self_obj is rec.desc_at_creation
        if isinstance(fn, PObj):
            return fn.cls is base.g["DynamicFieldtypeModule"]
        return any(fn is b for b in ALLOWED_BUILTINS)

    def site_calls(p):
        """Callees invoked at the dynamic call site `func(*args, **kwargs)` of _eval on this path."""
        return [e for e in p.events if e[0] == "call" and e[1] == "func" and e[-1] == "RecordContextMatcher._eval"]

    def untrusted_calls(p):
        return [e for e in p.events if e[0] == "call-opaque"]

    # ---- callee obligations over symbolic names ------------------------------------------------------------------------------------------
    a, b, c, gv = z3.String("id_a"), z3.String("id_b"), z3.String("id_c"), z3.String("genvar")
    N = lambda t: ast.Name(id=SStr(t), ctx=ast.Load())
    A = lambda v, t: ast.Attribute(value=v, attr=SStr(t), ctx=ast.Load())
    probe = lambda: ast.Name(id="zz_argument_probe", ctx=ast.Load())
    SHAPES = {
        "Name": lambda: N(a),
        "Name.attr": lambda: A(N(a), b),
        "Name.attr.attr": lambda: A(A(N(a), b), c),
        "call().attr": lambda: A(ast.Call(func=ast.Name(id="lower", ctx=ast.Load()), args=[ast.Constant("x")], keywords=[]), b),
        "call().attr.attr": lambda: A(A(ast.Call(func=ast.Name(id="lower", ctx=ast.Load()), args=[ast.Constant("x")], keywords=[]), b), c),
        "constant.attr": lambda: A(ast.Constant("abc"), b),
        "subscript.attr": lambda: A(ast.Subscript(value=N(a), slice=ast.Constant(0), ctx=ast.Load()), b),
        "list.attr": lambda: A(ast.List(elts=[N(a)], ctx=ast.Load()), b),
        "boolop.attr": lambda: A(ast.BoolOp(op=ast.Or(), values=[N(a), N(a)]), b),
        "call()": lambda: ast.Call(func=N(a), args=[], keywords=[]),
        "lambda": lambda: ast.Lambda(args=ast.arguments(posonlyargs=[], args=[], kwonlyargs=[], kw_defaults=[], defaults=[]), body=ast.Constant(1)),
        "subscript": lambda: ast.Subscript(value=N(a), slice=ast.Constant(0), ctx=ast.Load()),
        "ifexp": lambda: ast.IfExp(test=ast.Constant(True), body=N(a), orelse=N(a)),
    }

    def make_callee(shape):
        name = f"C09.callee[{shape}]"

        def th():
            rec = mkrec()
            node = ast.Call(func=SHAPES[shape](), args=[probe()], keywords=[ast.keyword(arg="k", value=probe())])
            expr = ast.Expression(body=node)
            m = it.instantiate(RCM, [expr, "<abstract call>"], {})
            evaluated = []

            def c_eval(it_, fn, args, kwargs):
                self_, nd = args
                if isinstance(nd, ast.Name) and nd.id == "zz_argument_probe":
                    evaluated.append(nd)
                    return 1
                if nd is node and "generator variable bound" not in m.attrs:
                    # the state in which a call is evaluated inside a generator expression: an arbitrary extra variable bound to an untrusted object
                    m.attrs["generator variable bound"] = True
                    hostile = Opaque("untrusted")
                    it_.assume(z3.Not(z3.Or(*[z3.InRe(gv, z3.Re(k)) for k in m.attrs["data"] if isinstance(k, str)])))
                    m.attrs["data"][SStr(gv)] = hostile
                return it_.call(it_.getattr_(self_, "_eval"), [nd], {})

            it.contracts["RecordContextMatcher.eval"] = c_eval
            it.trace_calls = True
            ident = z3.Concat(z3.Union(z3.Range("a", "z"), z3.Range("A", "Z"), z3.Re("_")), z3.Star(z3.Union(z3.Range("a", "z"), z3.Range("A", "Z"), z3.Range("0", "9"), z3.Re("_"))))
            for v_ in (a, b, c, gv):
                it.assume(z3.InRe(v_, ident))  # identifiers of an AST (ASCII identifiers; assumption listed in the evidence)
            try:
                try:
                    out = ("val", it.call(it.getattr_(m, "matches"), [rec], {}))
                except PyRaise as e:
                    out = ("raise", e.cls_name, str(e)[:200])
                return out, rec, list(evaluated)
            finally:
                it.trace_calls = False
                it.contracts.pop("RecordContextMatcher.eval", None)

        def judge(p):
            out, rec, evaluated = p.value
            if untrusted_calls(p):
                return False, f"an untrusted object is invoked: {untrusted_calls(p)[0][1]!r}"
            calls = site_calls(p)
            seen.add("call" if calls else out[1] if out[0] == "raise" else "value")
            if out[0] == "raise" and not calls and out[1] not in ("InvalidOperation", "AttributeError"):
                return False, f"unexpected error instead of a refusal: {out}"
            bad = [e for e in calls if not allowed(e[2], rec)]
            if bad:
                return False, f"callee outside the allowed set is invoked: {bad[0][2]!r}"
            if out[0] == "raise" and out[1] == "InvalidOperation" and evaluated:
                return False, "a refused call evaluated its arguments before refusing"
            if not calls and out[0] == "val":
                return False, f"the call evaluated to {out[1]!r} without a callee being invoked"
            if calls and shape in ("Name",):
                # the name that is accepted is a key of the function table or a whitelisted type
                fnames = [f.name for f in sel.g["FUNCTION_WHITELIST"]] + ["str", "repr", "any", "all", "fields"]
                return z3.Or(z3.InRe(a, z3.Union(*[z3.Re(x) for x in fnames])), z3.InRe(a, WLRE)), "a name outside the function table and the type whitelist is called"
            if calls and not shape.startswith("Name"):
                return False, "a callee that is not a plain dotted name is invoked"
            return True

        def wit(m, p):
            mv = lambda t: model_value(m, t) if m is not None else "x"
            txt = {"Name": "{a}(1)", "Name.attr": "{a}.{b}(1)", "Name.attr.attr": "{a}.{b}.{c}(1)", "call().attr": "lower('x').{b}(1)", "call().attr.attr": "lower('x').{b}.{c}(1)", "constant.attr": "'abc'.{b}(1)",
                   "subscript.attr": "{a}[0].{b}(1)", "list.attr": "[{a}].{b}(1)", "boolop.attr": "({a} or {a}).{b}(1)", "call()": "{a}()(1)", "lambda": "(lambda: 1)(1)", "subscript": "{a}[0](1)", "ifexp": "({a} if True else {a})(1)"}[shape]
            return {"expr": txt.format(a=mv(a), b=mv(b), c=mv(c)), "genvar": mv(gv)}

        seen = set()

        def run(tier):
            seen.clear()
            r = prove_paths(name, th, judge, wit, max_paths=6000)
            if r.status == "proved" and ("InvalidOperation" not in seen or (shape == "Name" and "call" not in seen)):
                return Result(name, "undecided", f"vacuous: outcomes seen {sorted(seen)}", paths=r.paths)
            return r

        return Obligation(name, run, replay=lambda w: {"call": "c09_hostile", "args": {"expr": w["expr"], "genvar": w.get("genvar")}}, functions=FU, mode="paths, symbolic identifiers")

    for shape in SHAPES:
        pack.add(make_callee(shape))
    pack.case_analyses.append(f"callee expression shapes {sorted(SHAPES)}: finite case analysis over the node kinds at and below node.func (resolve_attr_path only distinguishes Attribute / Name / anything else); identifiers symbolic")

    # ---- double-underscore access ----------------------------------------------------------------------------------------------------------
    def make_dunder(kind):
        name = f"C09.dunder[{kind}]"

        def th():
            rec = mkrec()
            node = {"attribute": lambda: A(ast.Name(id="r", ctx=ast.Load()), b), "attribute_of_value": lambda: A(A(ast.Name(id="r", ctx=ast.Load()), "s"), b), "name": lambda: N(a)}[kind]()
            m = it.instantiate(RCM, [ast.Expression(body=node), "<abstract access>"], {})
            it.trace_calls = True
            try:
                try:
                    return ("val", it.call(it.getattr_(m, "matches"), [rec], {})), rec
                except PyRaise as e:
                    return ("raise", e.cls_name), rec
            finally:
                it.trace_calls = False

        def judge(p):
            out, rec = p.value
            var = a if kind == "name" else b
            reads = [e for e in p.events if e[0] == "call" and e[1] == "getattr" and len(e[3]) >= 2 and isinstance(e[3][1], SStr)]
            dunder = z3.InRe(var, z3.Concat(z3.Re("__"), z3.Star(z3.AllChar(z3.ReSort(z3.StringSort())))))
            if reads:
                return z3.Not(dunder), "getattr() is reached with a double-underscore name taken from the expression"
            if out[0] == "val":
                # a value without a getattr(): the name was found in the namespace itself
                return z3.Not(dunder), "a double-underscore name evaluates to a value"
            return True

        return Obligation(name, lambda tier: prove_paths(name, th, judge, lambda m, p: {"expr": {"attribute": "r.%s", "attribute_of_value": "r.s.%s", "name": "%s"}[kind] % (model_value(m, a if kind == "name" else b) if m is not None else "__x")}),
                          replay=lambda w: {"call": "c09_dunder", "args": w}, functions=FU[:3], mode="paths, symbolic identifiers")

    for kind in ("attribute", "attribute_of_value", "name"):
        pack.add(make_dunder(kind))

    # ---- the function table is built once from the initial namespace and never written afterwards ------------------------------------------
    def run_table(tier):
        def th():
            rec = mkrec()
            m = it.instantiate(RCM, [ast.parse("True", mode="eval"), "True"], {})
            it.call(it.getattr_(m, "matches"), [rec], {})
            return m, rec

        def judge(p):
            m, rec = p.value
            f = m.attrs.get("functions")
            ok = isinstance(f, dict) and all(allowed(v, rec) for v in f.values()) and {"lower", "upper", "name", "names", "field_equals", "field_contains", "field_regex", "has_field", "str", "repr", "any", "all"} <= set(f) and f is not m.attrs["data"]
            return ok, f"function table after matches(): {sorted(f) if isinstance(f, dict) else f!r}"

        r = prove_paths("C09.table", th, judge)
        if r.status != "proved":
            return r
        # structural frame: no statement of the class stores into self.functions except the two assignments in __init__/matches
        cls = [n for n in ast.parse(L.source_of("flow.record.selector")).body if isinstance(n, ast.ClassDef) and n.name == "RecordContextMatcher"][0]
        writes = []
        for fn in [n for n in cls.body if isinstance(n, ast.FunctionDef)]:
            for n in ast.walk(fn):
                src = ast.unparse(n)
                if isinstance(n, (ast.Assign, ast.AugAssign, ast.Delete)) and "self.functions" in "".join(ast.unparse(t) for t in (n.targets if hasattr(n, "targets") else [n.target])):
                    writes.append((fn.name, src[:80]))
                if isinstance(n, ast.Call) and isinstance(n.func, ast.Attribute) and ast.unparse(n.func.value) == "self.functions" and n.func.attr in ("update", "pop", "setdefault", "clear", "popitem", "__setitem__", "__delitem__"):
                    writes.append((fn.name, src[:80]))
        extra = [w for w in writes if not (w[0] in ("__init__", "matches") and w[1].startswith("self.functions ="))]
        if extra:
            return Result("C09.table", "refuted", f"the function table is written outside its construction: {extra}", paths=r.paths, witness={"writes": extra})
        return r

    pack.add(Obligation("C09.table", run_table, replay=lambda w: None, functions=FU[:3]))

    # ---- hostile whole expressions: refused, nothing untrusted invoked, record unchanged ---------------------------------------------------
    def snapshot(rec):
        return [(k, list(v.base) if isinstance(v, PObj) and v.has_base and isinstance(v.base, list) else v) for k, v in sorted(rec.attrs.items())]

    for e in HOSTILE:
        name = f"C09.hostile[{e}]"

        def run(tier, e=e, name=name):
            def th():
                rec = mkrec()
                before = snapshot(rec)
                w0 = len(it.writes)
                it.trace_calls = True
                try:
                    s = it.call(sel.g["Selector"], [e], {})
                    try:
                        out = ("val", it.call(it.getattr_(s, "match"), [rec], {}))
                    except PyRaise as ex:
                        out = ("raise", ex.cls_name)
                finally:
                    it.trace_calls = False
                same = all(k1 == k2 and (v1 is v2 or v1 == v2) for (k1, v1), (k2, v2) in zip(before, snapshot(rec))) and not any(w[0] is rec for w in it.writes[w0:])
                return out, rec, same

            def judge(p):
                out, rec, same = p.value
                bad = [x for x in site_calls(p) if not allowed(x[2], rec)]
                if bad or untrusted_calls(p):
                    return False, f"{e!r}: invokes {(bad or untrusted_calls(p))[0][2]!r}"
                if not same:
                    return False, f"{e!r}: the record was modified"
                native_method_calls = [x for x in p.events if x[0] == "call" and x[-1] == "RecordContextMatcher._eval" and x[1] == "func" and not allowed(x[2], rec)]
                if out[0] == "val" and e not in MAY_EVALUATE:
                    return False, f"{e!r}: evaluated to {out[1]!r} instead of being refused"
                return True

            return prove_paths(name, th, judge, lambda m, p: {"expr": e, "genvar": None, "refuse": ".__" in e or "['__" in e or "'__" in e and "field_" in e})  # (a double-underscore attribute access must be refused as such)

        pack.add(Obligation(name, run, replay=lambda w: {"call": "c09_hostile", "args": w}, functions=FU))

    # ---- the interpreted selector asked for BY TEXT (make_selector, what every reader does with selector=<text>) is the sandbox whatever was asked for before:
    #      a compiled selector made from the same text earlier in the process (rdump's default) must not be handed out in its place
    for e in ["r.s.upper()", "r.tags.append('x') or True", "__import__('os')", "r.__class__", "len(r.tags)"]:
        name = f"C09.entry[make_selector({e!r}) after a compiled selector of the same text was made]"

        def run(tier, e=e, name=name):
            def th():
                rec = mkrec()
                before = snapshot(rec)
                mk = sel.g["make_selector"]
                try:
                    it.call(mk, [e], {"force_compiled": True})  # made, never evaluated
                except PyRaise:
                    pass
                s = it.call(mk, [e], {})
                kind = it.type_name(s)
                try:
                    out = ("val", it.call(it.getattr_(s, "match"), [rec], {}))
                except PyRaise as ex:
                    out = ("raise", ex.cls_name)
                same = all(k1 == k2 and (v1 is v2 or v1 == v2) for (k1, v1), (k2, v2) in zip(before, snapshot(rec)))
                return kind, out, same

            return prove_paths(name, th, lambda p: (p.value[0] == "Selector" and p.value[1][0] == "raise" and p.value[2], f"make_selector({e!r}) handed out a {p.value[0]}; evaluating it gave {p.value[1]!r} (record unchanged: {p.value[2]}) - must be the interpreted selector, which refuses"),
                               lambda m, p: {"expr": e})

        pack.add(Obligation(name, run, replay=lambda w: {"call": "c09_entry_history", "args": {"expr": w.get("expr")}}, functions=FU + ("flow.record.selector:make_selector",), mode="history of two make_selector calls"))

    # ---- attribute chains on typed matchers: `Type.<type>.<method>` names a method, it must never be invoked (no Call node is involved) ------------
    for e in ["Type.string.upper == 'ABC'", "Type.string.lower == 'abc'", "'ABC' in Type.string.upper", "Type.string.isalpha == True", "Type.string.encode == b'abc'", "Type.varint.bit_length == 3", "Type.string.strip == 'abc'"]:
        name = f"C09.typeattr[{e}]"

        def run(tier, e=e, name=name):
            def th():
                rec = mkrec()
                before = snapshot(rec)
                s = it.call(sel.g["Selector"], [e], {})
                try:
                    out = ("val", it.truth(it.call(it.getattr_(s, "match"), [rec], {})))
                except PyRaise as ex:
                    out = ("raise", ex.cls_name)
                same = all(k1 == k2 and (v1 is v2 or v1 == v2) for (k1, v1), (k2, v2) in zip(before, snapshot(rec)))
                return out, same

            return prove_paths(name, th, lambda p: (p.value[1] and not (p.value[0][0] == "val" and p.value[0][1] is True), f"{e!r}: evaluated to {p.value[0]!r} - the method named by the attribute chain was invoked (record unchanged: {p.value[1]})"),
                               lambda m, p: {"expr": e, "genvar": None, "typeattr": True})

        pack.add(Obligation(name, run, replay=lambda w: {"call": "c09_hostile", "args": w}, functions=FU))

    # ---- closure over node kinds: every expression node class outside the documented language is refused (a new node kind is a new evaluation rule to audit) --------
    NODE_SAMPLES = {"JoinedStr": "f'{r.s}' == 'abc'", "FormattedValue": "f\"{r.s:{'}{0.__class__'}}\" == 'x'", "Lambda": "(lambda: r.s)", "IfExp": "r.s if r.n else r.n", "Dict": "{'a': r.s}", "Set": "{r.s}", "ListComp": "[x for x in r.tags]",
                    "SetComp": "{x for x in r.tags}", "DictComp": "{x: 1 for x in r.tags}", "Subscript": "r.tags[0]", "Slice": "r.s[0:1]", "Starred": "[*r.tags]", "NamedExpr": "(y := r.s)", "Await": None, "Yield": None, "YieldFrom": None}
    for kind, src in NODE_SAMPLES.items():
        if src is None:
            continue
        name = f"C09.nodekind[{kind}]"

        def run(tier, src=src, name=name, kind=kind):
            def th():
                rec = mkrec()
                s = it.call(sel.g["Selector"], [src], {})
                try:
                    return ("val", it.call(it.getattr_(s, "match"), [rec], {}))
                except PyRaise as ex:
                    return ("raise", ex.cls_name)

            return prove_paths(name, th, lambda p: (p.value[0] == "raise", f"an expression with a {kind} node ({src!r}) is evaluated to {p.value[1]!r} instead of being refused"), lambda m, p: {"expr": src, "genvar": None, "refuse": True})

        pack.add(Obligation(name, run, replay=lambda w: {"call": "c09_hostile", "args": w}, functions=FU, mode="one representative per expression node class outside the documented language"))

    # ---- benign evaluation does not modify the record (frame) -------------------------------------------------------------------------------
    for e in ["r.n == 5 and 'a' in r.tags", "any(t == 'a' for t in r.tags)", "upper(r.s) == 'ABC' or names(r)", "field_contains(r, ['s'], ['b'])", "str(r.tags) == repr(r.tags)", "Type.string == 'abc'", "string(r.s) == r.s", "r.tags == ['a', 'b']"]:
        name = f"C09.frame[{e}]"

        def run(tier, e=e, name=name):
            def th():
                rec = mkrec()
                before = snapshot(rec)
                w0 = len(it.writes)
                s = it.call(sel.g["Selector"], [e], {})
                it.call(it.getattr_(s, "match"), [rec], {})
                it.call(it.getattr_(s, "match"), [rec], {})
                return rec, before, snapshot(rec), [w for w in it.writes[w0:] if w[0] is rec]

            return prove_paths(name, th, lambda p: (not p.value[3] and all(k1 == k2 and (v1 is v2 or v1 == v2) for (k1, v1), (k2, v2) in zip(p.value[1], p.value[2])), f"{e!r} modified the record"),
                               lambda m, p: {"expr": e, "genvar": None, "frame": True})

        pack.add(Obligation(name, run, replay=lambda w: {"call": "c09_hostile", "args": w}, functions=FU))

    # ---- allowed expressions are evaluated WITHOUT touching the record: list fields handed to the helpers keep their items, values handed to fields()
    #      are not asked to do anything (a value held by the record is data: none of its methods is invoked)
    CANARY_SRC = "class Canary:\n    def gettypename(self):\n        LOG.append('gettypename')\n        return 'string'\n    def lower(self):\n        LOG.append('lower')\n        return self\n"

    def canary_module():
        m = PModule("<c09 canary>")
        m.g["LOG"] = []
        it.block(ast.parse(CANARY_SRC).body, m.g, m)
        return m

    for e in ["field_equals(r, ['s'], r.tags)", "field_contains(r, ['s'], r.tags)", "field_equals(r, ['s'], r.tags, nocase=True)", "fields(r.c)", "fields(r.tags)", "lower(r.c) == 1", "str(fields(r.s)) == ''"]:
        name = f"C09.pure[{e}]"

        def run(tier, e=e, name=name):
            def th():
                cm = canary_module()
                D = it.call(RD, ["c09/can", [("varint", "n"), ("string", "s"), ("string[]", "tags"), ("record", "c")]], {})
                rec = it.call(D, [], {"n": 5, "s": "abc", "tags": ["Wheel", "ROOT", "adm"], "c": it.call(cm.g["Canary"], [], {})})
                before = [it.unbase(x) for x in rec.attrs["tags"].base]
                s = it.call(sel.g["Selector"], [e], {})
                try:
                    out = ("val", it.call(it.getattr_(s, "match"), [rec], {}))
                except PyRaise as ex:
                    out = ("raise", ex.cls_name)
                return out[0], [it.unbase(x) for x in rec.attrs["tags"].base] == before, list(cm.g["LOG"])

            return prove_paths(name, th, lambda p: (p.value[1] and not p.value[2], f"{e!r}: list field unchanged: {p.value[1]}; methods of a value held by the record that were invoked: {p.value[2]}"), lambda m, p: {"expr": e})

        pack.add(Obligation(name, run, replay=lambda w: {"call": "c09_pure", "args": {"expr": w.get("expr")}}, functions=FU + ("flow.record.base:RecordDescriptor.getfields", "flow.record.selector:field_equals", "flow.record.selector:field_contains"), mode="allowed calls whose arguments are values held by the record"))

    # ---- canary / conformance / bounded -----------------------------------------------------------------------------------------------------
    def run_canary(tier):
        def th():
            rec = mkrec()
            it.trace_calls = True
            try:
                s = it.call(sel.g["Selector"], ["upper(r.s) == 'ABC'"], {})
                return it.call(it.getattr_(s, "match"), [rec], {}), rec
            finally:
                it.trace_calls = False

        return prove_paths("C09.canary", th, lambda p: (not site_calls(p), "a whitelisted helper was called (expected: the canary claims no call happens)"))

    pack.add(Obligation("C09.canary", run_canary, kind="canary"))

    def run_cross(tier):
        mine, reqs = [], []
        for e in HOSTILE + ["upper(r.s) == 'ABC'", "str(r.n) == '5'", "any(t == 'a' for t in r.tags)", "net.ipaddress('1.2.3.4') == '1.2.3.4'", "fields('string')", "repr(r.s)", "all([])"]:
            def th(e=e):
                rec = mkrec()
                return it.call(it.getattr_(it.call(sel.g["Selector"], [e], {}), "match"), [rec], {})

            try:
                p = it.explore(th)[0]
                mine.append("raise:" + exc_name(p) if p.kind == "raise" else "value")
            except Unsupported as ex:
                mine.append(f"unsupported:{ex}")
            reqs.append({"call": "c09_eval", "args": {"expr": e}})
        native = native_batch(reqs)
        bad = [(r["args"]["expr"], x, y.get("outcome")) for r, x, y in zip(reqs, mine, native) if x != y.get("outcome")]
        return Result("C09.cross", "proved" if not bad else "refuted", f"{len(bad)} disagreement(s): {bad[:4]}" if bad else "", paths=len(reqs))

    pack.add(Obligation("C09.cross", run_cross, kind="cross"))

    def run_fuzz(tier):
        args = {"seed": seed, "n": 600 if tier == "quick" else 8000}
        res = native_replay({"call": "c09_sandbox_fuzz", "args": args})
        r = Result("C09.sandbox_fuzz", "refuted" if res.get("violates") else ("proved" if "error" not in res else "error"), str(res.get("detail") or res.get("error") or "")[:300], paths=res.get("cases", 0))
        r.native, r.confirmed, r.request, r.witness = res, bool(res.get("violates")), {"call": "c09_sandbox_fuzz", "args": args}, res.get("witness")
        return r

    pack.add(Obligation("C09.sandbox_fuzz", run_fuzz, kind="bounded", note="native run: grammar-generated hostile expressions (method calls on values, calls through generator variables, attribute chains, builtins, dunder access) against a record whose "
                        "values are instrumented canaries that log every call and mutation; bound: 600 (quick) / 8000 (thorough) expressions", functions=FU))
    pack.not_covered = ["the compiled selector (documented as unsafe for untrusted queries)", "information flow through comparison operators on field values (operators are allowed by the property)",
                        "resource exhaustion (long-running or deeply nested expressions)"]
    pack.assumptions += ["identifiers in the abstract callee shapes range over ASCII identifiers [A-Za-z_][A-Za-z0-9_]*", "record field values are plain data (field types): an attribute read on them has no side effect", "operator functions of the tables only dispatch to the operands' data-model methods (C07.table)"]
    return pack

"""C14 - JSON lines output round-trips and is plain JSON.

Contracts on the real JsonRecordPacker.pack_obj / unpack_obj / pack / unpack and JsonfileWriter / JsonfileReader (json replaced by its tree contract):

  round trip      JsonfileWriter -> abstract text file -> JsonfileReader returns, for every JSON-supported field type (scalar and list form), a record with the same type
                  name, field list and values under the deep observation - integers of any size and text are symbolic (for all values), bytes / floats / booleans /
                  timestamps / digests / addresses / networks / URIs / POSIX paths representative incl. empty and unset values
  document shape  each write emits exactly one JSON object followed by one newline; its keys are the record's slots in order, followed by _type and _recorddescriptor
                  iff descriptors are enabled; boolean fields are JSON booleans; indentation only changes the text, not the tree; the descriptor line precedes (C03)
  descriptors off the lines carry no markers and the reader's plain-JSON fallback rebuilds, line by line, a record with the same scalar JSON values - also when
                  consecutive lines have the same keys but values of different kinds
"""
import importlib.util
import os
import pathlib

import z3

from pyvc.models.jsonm import JSText

from .streamlib import *  # noqa

_spec = importlib.util.spec_from_file_location("c05_values", os.path.join(os.path.dirname(os.path.dirname(os.path.abspath(__file__))), "replay", "c05_values.py"))
V = importlib.util.module_from_spec(_spec)
_spec.loader.exec_module(V)
JSON_TYPES = ["varint", "filesize", "unix_file_mode", "uint16", "uint32", "net.tcp.Port", "boolean", "float", "string", "wstring", "bytes", "datetime", "digest", "path", "uri", "net.ipaddress", "net.ipnetwork", "stringlist"]
EXTRA = {"float": ["float('inf')", "-0.0", "5e-324"], "bytes": ["bytes(range(256))", "b'\\x00'"], "string": ["'\\ud800'", "'line\\nbreak \"q\"'"], "net.ipaddress": ["'2001:db8::1'", "'::ffff:1.2.3.4'", "'::1.2.3.4'", "'::1'"], "net.ipnetwork": ["'2001:db8::/32'", "'::ffff:10.0.0.0/104'"], "path": ["PurePosixPath('c:/evidence/pagefile.sys')", "PurePosixPath('\\\\\\\\host\\\\share\\\\f')", "PurePosixPath('C:\\\\Users\\\\x')"],
         "digest": ["('D41D8CD98F00B204E9800998ECF8427E', None, None)", "(None, 'DA39A3EE5E6B4B0D3255bfef95601890afd80709', None)", "(b'd41d8cd98f00b204e9800998ecf8427e', None, None)"]}
SKIP = {("path", "'c:\\\\x\\\\y'"), ("path", "PureWindowsPath('c:/q')")}  # the statement covers POSIX paths


def pyvalue(src):
    return eval(src, dict(V.NS, PurePosixPath=pathlib.PurePosixPath, PureWindowsPath=pathlib.PureWindowsPath))


def build(tier="quick", seed=0):
    it, L, base, pk, st = mods()
    jp = L.import_module("flow.record.jsonpacker")
    jf = L.import_module("flow.record.adapter.jsonfile")
    pack = new_pack("C14", "JSON lines output round-trips and is plain JSON")
    RD = base.g["RecordDescriptor"]
    FU = ("flow.record.jsonpacker:JsonRecordPacker.pack_obj", "flow.record.jsonpacker:JsonRecordPacker.unpack_obj", "flow.record.jsonpacker:JsonRecordPacker.pack", "flow.record.jsonpacker:JsonRecordPacker.unpack",
          "flow.record.jsonpacker:JsonRecordPacker.register", "flow.record.adapter.jsonfile:JsonfileWriter.__init__", "flow.record.adapter.jsonfile:JsonfileWriter._write", "flow.record.adapter.jsonfile:JsonfileWriter.write",
          "flow.record.adapter.jsonfile:JsonfileReader.__iter__", "flow.record.base:Record._asdict", "flow.record.fieldtypes:fieldtype_for_value")
    x, y = z3.Int("x"), z3.Int("y")
    sv, sw = z3.String("s"), z3.String("w")

    def write_lines(records, **opts):
        fp = AbsFile(it, mode="w")
        w = it.call(jf.g["JsonfileWriter"], [fp], opts)
        for r in records:
            it.call(it.getattr_(w, "write"), [r], {})
        return fp.content()

    def read_lines(lines):
        rd = it.call(jf.g["JsonfileReader"], [AbsFile(it, lines, mode="r")], {})
        return list(it.iterate(rd))

    def judge_same(p):
        if p.kind == "raise":
            return False, f"raised {exc_text(p)}"
        before, out = p.value
        if len(out) != len(before):
            return False, f"{len(before)} record(s) written, {len(out)} read"
        conj = []
        for i, (b, o) in enumerate(zip(before, out)):
            g, why = obs_eq(b, deep_obs(it, o), f"record {i}")
            if g is False:
                return False, why
            if g is not True:
                conj.append(g)
        return (z3.And(*conj) if conj else True), "a value differs after the JSON round trip"

    def add(name, th, replay, mode="paths", wit=None):
        pack.add(Obligation(name, lambda tier: prove_paths(name, th, judge_same, wit or (lambda m_, p: {}), allow_raise=None), replay=replay, functions=FU, mode=mode))

    def one_field(typename, value_fn):
        def th():
            D = it.call(RD, ["c14/t", [(typename, "x"), ("varint", "n")]], {})
            r = it.call(D, [], {"x": value_fn(), "n": 7})
            return [deep_obs(it, r)], read_lines(write_lines([r]))
        return th

    # ---- symbolic integers / text
    for t, rng in (("varint", None), ("filesize", None), ("unix_file_mode", None), ("uint16", (0, 0xFFFF)), ("uint32", (0, 0xFFFFFFFF)), ("net.tcp.Port", (0, 0xFFFF))):
        for lst in (False, True):
            tn = t + ("[]" if lst else "")

            def vf(rng=rng, lst=lst):
                if rng:
                    it.assume(z3.And(x >= rng[0], x <= rng[1], y >= rng[0], y <= rng[1]))
                return [SInt(x), SInt(y)] if lst else SInt(x)

            add(f"C14.type[{tn}, any integer{' in range' if rng else ''}]", one_field(tn, vf), lambda w, tn=tn: {"call": "c14_value", "args": {"ftype": tn, "src": repr([w.get("x", 0), w.get("y", 0)]) if tn.endswith("[]") else repr(w.get("x", 0))}},
                wit=lambda m_, p: {"x": model_value(m_, x), "y": model_value(m_, y)})
    for t in ("string", "wstring", "uri"):
        for lst in (False, True):
            tn = t + ("[]" if lst else "")
            add(f"C14.type[{tn}, any text]", one_field(tn, lambda lst=lst: [SStr(sv), SStr(sw)] if lst else SStr(sv)), lambda w, tn=tn: {"call": "c14_value", "args": {"ftype": tn, "src": repr([w.get("s", ""), w.get("w", "")]) if tn.endswith("[]") else repr(w.get("s", ""))}},
                wit=lambda m_, p: {"s": model_value(m_, sv), "w": model_value(m_, sw)})

    # ---- addresses of ANY value and either family (assumed ipaddress contract of pyvc/models/ip.py: the text form carries the family)
    from pyvc.models.ip import SymIP

    for fam, hi in ((4, 2 ** 32), (6, 2 ** 128)):
        for lst in (False, True):
            tn = "net.ipaddress" + ("[]" if lst else "")

            def vf(fam=fam, hi=hi, lst=lst):
                it.assume(z3.And(x >= 0, x < hi, y >= 0, y < hi))
                return [SymIP(fam, SInt(x)), SymIP(fam, SInt(y))] if lst else SymIP(fam, SInt(x))

            def rp(w, fam=fam, lst=lst, tn=tn):
                mk = lambda n: f"IP{fam}({int(n)})"
                return {"call": "c14_value", "args": {"ftype": tn, "src": "[" + ", ".join([mk(w.get("x", 0)), mk(w.get("y", 0))]) + "]" if lst else mk(w.get("x", 0))}}

            add(f"C14.type[{tn}, any IPv{fam} address]", one_field(tn, vf), rp, wit=lambda m_, p: {"x": model_value(m_, x), "y": model_value(m_, y)})

    # ---- representative values, list forms, unset
    for t in JSON_TYPES:
        srcs = [s_ for s_ in dict.fromkeys(V.VALID.get(t, []) + EXTRA.get(t, [])) if (t, s_) not in SKIP]
        for src in srcs:
            add(f"C14.value[{t}, {src}]", one_field(t, lambda src=src: pyvalue(src)), lambda w, t=t, src=src: {"call": "c14_value", "args": {"ftype": t, "src": src}}, mode="representative value")
        if t in V.LISTABLE and srcs:
            lsrc = "[" + ", ".join(srcs[:3]) + "]"
            add(f"C14.value[{t}[], {lsrc}]", one_field(t + "[]", lambda lsrc=lsrc: pyvalue(lsrc)), lambda w, t=t, lsrc=lsrc: {"call": "c14_value", "args": {"ftype": t + "[]", "src": lsrc}}, mode="representative value")
            add(f"C14.value[{t}[], []]", one_field(t + "[]", lambda: []), lambda w, t=t: {"call": "c14_value", "args": {"ftype": t + "[]", "src": "[]"}}, mode="representative value")
            add(f"C14.unset[{t}[]]", one_field(t + "[]", lambda: None), lambda w, t=t: {"call": "c14_value", "args": {"ftype": t + "[]", "src": "None"}}, mode="representative value")
        add(f"C14.unset[{t}]", one_field(t, lambda: None), lambda w, t=t: {"call": "c14_value", "args": {"ftype": t, "src": "None"}}, mode="representative value")
    pack.case_analyses.append(f"JSON-supported field types {JSON_TYPES} in scalar and list form; representative values from replay/c05_values.py plus boundary values; integers and text symbolic")

    # ---- document shape
    def th_shape(opts, marker):
        def th():
            D = it.call(RD, ["c14/shape", [("varint", "n"), ("string", "s"), ("boolean", "b"), ("boolean", "u"), ("bytes", "by"), ("string[]", "l")]], {})
            r = it.call(D, [], {"n": SInt(x), "s": SStr(sv), "b": 1, "by": b"\x00\xff", "l": ["a"]})
            lines = write_lines([r, r], **opts)
            bad = []
            recs = [ln for ln in lines if isinstance(ln, JSText) and dict(ln.tree[1]).get("_type", ("leaf", None))[1] != "recorddescriptor"] if all(isinstance(ln, JSText) for ln in lines) else []
            if not all(isinstance(ln, JSText) and ln.suffix == "\n" and ln.tree[0] == "obj" for ln in lines):
                bad.append(f"not one JSON object followed by a newline per write: {lines!r:.200}")
            if len(lines) != (3 if marker else 2) or len(recs) != 2:
                bad.append(f"{len(lines)} lines / {len(recs)} record lines for two records ({'one' if marker else 'no'} descriptor line expected)")
            for ln in recs:
                keys = [k for k, _ in ln.tree[1]]
                want = ["n", "s", "b", "u", "by", "l", "_source", "_classification", "_generated", "_version"] + (["_type", "_recorddescriptor"] if marker else [])
                if keys != want:
                    bad.append(f"keys {keys}, expected {want}")
                d = dict(ln.tree[1])
                if d["b"] != ("leaf", True) or d["u"] != ("leaf", None):
                    bad.append(f"boolean field written as {d['b']!r} / unset as {d['u']!r}")
                if ln.indent != opts.get("indent_expected"):
                    bad.append(f"indent {ln.indent!r}")
                if marker and (d["_type"] != ("leaf", "record") or d["_recorddescriptor"][0] != "arr"):
                    bad.append("type markers")
            vals = [dict(ln.tree[1]) for ln in recs]
            return bad, [(v["n"][1], v["s"][1]) for v in vals]
        return th

    def judge_shape(p):
        bad, vals = p.value
        if bad:
            return False, "; ".join(bad)
        return z3.And(*[z3.And(it.zint(n) == x, it.zstr(s_) == sv) for n, s_ in vals]), "integer / text value is not written as itself"

    for nm, opts, marker in (("descriptors on", {"indent_expected": None}, True), ("descriptors off", {"descriptors": "false", "indent_expected": None}, False), ("indent=2", {"indent": "2", "indent_expected": 2}, True), ("descriptors=0 indent=4", {"descriptors": 0, "indent": 4, "indent_expected": 4}, False)):
        o = {k: v for k, v in opts.items() if k != "indent_expected"}
        name = f"C14.shape[{nm}]"
        pack.add(Obligation(name, lambda tier, name=name, o=o, opts=opts, marker=marker: prove_paths(name, (lambda f=th_shape(dict(o, indent_expected=opts["indent_expected"]), marker): f)(), judge_shape, lambda m_, p: {"x": model_value(m_, x), "s": model_value(m_, sv)}),
                            replay=lambda w, o=o: {"call": "c14_shape", "args": {"opts": {k: v for k, v in o.items()}, "x": w.get("x") if isinstance(w.get("x"), int) else 0, "s": w.get("s") if isinstance(w.get("s"), str) else ""}}, functions=FU))

    # ---- descriptors off: plain lines stay readable with the same scalar values
    def th_plain():
        D = it.call(RD, ["c14/plain", [("varint", "n"), ("string", "s"), ("float", "f"), ("boolean", "b"), ("varint", "u")]], {})
        r1 = it.call(D, [], {"n": SInt(x), "s": SStr(sv), "f": 1.5, "b": True, "_source": "src-1", "_classification": "cls-1"})  # u unset -> null
        r2 = it.call(D, [], {"n": None, "s": "t", "f": None, "b": False, "u": 9})  # the same keys, other kinds of values (null <-> number)
        lines = write_lines([r1, r2], descriptors="false")
        lines = lines + ['{"other": 1}\n']
        out = read_lines(lines)
        res = []
        for o in out:
            res.append({k: o.attrs.get(k) for k in o.attrs if not k.startswith("_")})
        meta = (it.unbase(out[0].attrs.get("_source")), it.unbase(out[0].attrs.get("_classification")), it.unbase(out[0].attrs.get("_version")), it.unbase(out[0].attrs.get("_generated")) == it.unbase(r1.attrs["_generated"])) if out else None
        return res, [it.getattr_(it.getattr_(o, "_desc"), "name") for o in out], meta

    # ---- a record that cannot be serialised is refused; the caller carries on with the same writer: what it writes afterwards still reads back
    def th_refused():
        D = it.call(RD, ["c14/refuse", [("path[]", "x"), ("varint", "n")]], {})
        E = it.call(RD, ["c14/other", [("varint", "n")]], {})
        bad = it.call(D, [], {"x": ["/a"], "n": 1})
        bad.attrs["x"].base.append(pathlib.PurePosixPath("/not/converted"))  # (list.append on a typed list does not convert: the element is no field type value)
        good = [it.call(D, [], {"x": ["/b"], "n": SInt(x)}), it.call(E, [], {"n": SInt(y)}), it.call(D, [], {"x": [], "n": 3})]
        fp = AbsFile(it, mode="w")
        w = it.call(jf.g["JsonfileWriter"], [fp], {})
        try:
            it.call(it.getattr_(w, "write"), [bad], {})
            return [deep_obs(it, r) for r in good], "the unserialisable record was accepted"
        except PyRaise:
            pass
        for r in good:
            it.call(it.getattr_(w, "write"), [r], {})
        return [deep_obs(it, r) for r in good], read_lines(fp.content())

    pack.add(Obligation("C14.history[a write refused while serialising, then records of that type]", lambda tier: prove_paths("C14.history[a write refused while serialising, then records of that type]", th_refused,
                        lambda p: judge_same(p) if p.kind == "raise" or not isinstance(p.value[1], str) else (False, p.value[1]), lambda m_, p: {"x": model_value(m_, x)}, allow_raise=None), replay=lambda w: {"call": "c14_refused", "args": {"x": w.get("x", 0) if isinstance(w.get("x", 0), int) else 0}}, functions=FU))

    def judge_plain(p):
        res, names, meta = p.value
        if meta != ("src-1", "cls-1", 1, True):
            return False, f"the reserved fields of a plain line (written: _source='src-1', _classification='cls-1', _version=1, the record's _generated) were read back as {meta}"
        if len(res) != 3 or names != ["json/record"] * 3:
            return False, f"plain JSON lines read as {names} ({len(res)} records)"
        a, b, c = res
        if not (it.unbase(a["f"]) == 1.5 and it.unbase(a["b"]) in (True, 1)) or it.unbase(a.get("u")) is not None:
            return False, f"first plain line read as {a!r}"
        if not (it.unbase(b["n"]) is None and it.unbase(b["s"]) == "t" and it.unbase(b["f"]) is None and it.unbase(b["b"]) in (False, 0) and it.unbase(b["u"]) == 9 and isinstance(it.unbase(b["u"]), int)):
            return False, f"a line with the same keys but other kinds of values (null where a number was, a number where null was) was read as {b!r}"
        if list(c) != ["other"] or it.unbase(c["other"]) != 1:
            return False, f"third line read as {c!r}"
        return z3.And(it.zint(a["n"]) == x, it.zstr(a["s"]) == sv), "scalar values differ"

    pack.add(Obligation("C14.plain[descriptors off, lines of changing kinds]", lambda tier: prove_paths("C14.plain[descriptors off, lines of changing kinds]", th_plain, judge_plain, lambda m_, p: {"x": model_value(m_, x), "s": model_value(m_, sv)}, allow_raise=None),
                        replay=lambda w: {"call": "c14_plain", "args": {"x": w.get("x") if isinstance(w.get("x"), int) else 0, "s": w.get("s") if isinstance(w.get("s"), str) else ""}}, functions=FU))

    # ---- canary / conformance / bounded
    def run_canary(tier):
        def th():
            D = it.call(RD, ["c14/t", [("varint", "x")]], {})
            r = it.call(D, [], {"x": SInt(x)})
            other = it.call(D, [], {"x": SInt(x + 1), "_generated": r.attrs["_generated"]})
            return [deep_obs(it, other)], read_lines(write_lines([r]))
        return prove_paths("C14.canary", th, judge_same, lambda m_, p: {}, allow_raise=None)

    pack.add(Obligation("C14.canary", run_canary, kind="canary"))

    def run_cross(tier):
        res = native_replay({"call": "c03_model_conformance", "args": {}})
        return Result("C14.cross", "proved" if res.get("ok") else "refuted", str(res.get("detail") or res.get("error") or "")[:300], paths=res.get("cases", 0))

    pack.add(Obligation("C14.cross", run_cross, kind="cross"))

    def run_sweep(tier):
        args = {"seed": seed, "n": 150 if tier == "quick" else 3000}
        res = native_replay({"call": "c14_sweep", "args": args}, timeout=3000)
        r = Result("C14.json_sweep", "refuted" if res.get("violates") else ("proved" if "error" not in res else "error"), str(res.get("detail") or res.get("error") or "")[:300], paths=res.get("cases", 0))
        r.native, r.confirmed, r.request, r.witness = res, bool(res.get("violates")), {"call": "c14_sweep", "args": args}, res.get("witness")
        return r

    pack.add(Obligation("C14.json_sweep", run_sweep, kind="bounded", note="native run on real files: random descriptors over the JSON-supported types x values incl. None, big integers, NaN/inf, surrogate escapes, empty lists x descriptors on/off x indentation; "
                        "every line (document) parsed by the json module, round trip by deep observation; bound 150 (quick) / 3000 (thorough) cases", functions=FU))
    pack.assumptions += ["json tree model (dumps/loads inverse on trees, `default` once per object, object_hook bottom-up; sampled by C14.cross)", "base64 / datetime / ipaddress / pathlib / urllib executed natively on representative values"]
    pack.not_covered = ["the spelling of NaN / Infinity and of escapes in the text (the json module's choice)", "Windows paths, commands and records nested in records are not among the JSON-supported types of the statement", "grouped records are flattened by the JSON packer (by design)"]
    return pack

#!/usr/bin/env python3
"""tools/batch.py <dir with <PID>-m<k>/ sub-directories> [<only substring>]  - confirms every change found there (tools/confirm_mutant.py, fresh scratch worktree each)
and, for the confirmed ones, runs the quick check of the property against a scratch worktree with the change applied (/repo is not touched).
Prints one line per change: CONFIRMED/NOT + DETECTED / MISSED / NO-VERDICT and the first violation line."""
import glob, os, re, subprocess, sys, tempfile, shutil
from concurrent.futures import ThreadPoolExecutor

src = os.path.abspath(sys.argv[1]); only = sys.argv[2] if len(sys.argv) > 2 else ""
VERIF = os.path.dirname(os.path.dirname(os.path.abspath(__file__)))
run = lambda *a, **k: subprocess.run(*a, capture_output=True, text=True, **k)


def one(d):
    sid = os.path.basename(d); pid = sid.split("-")[0]
    if not os.path.exists(f"{d}/patch.diff") or not os.path.exists(f"{d}/demo.py"):
        return f"{sid}: incomplete"
    c = run([os.path.join(VERIF, "tools", "confirm_mutant.py"), d, sid, pid])
    if c.returncode != 0:
        return f"{sid}: NOT CONFIRMED\n" + c.stdout[-600:] + c.stderr[-300:]
    wt = tempfile.mkdtemp(prefix="batch_", dir="/tmp"); os.rmdir(wt)
    try:
        run(["git", "-C", "/repo", "worktree", "add", "--detach", wt, "HEAD", "-q"])
        a = run(["git", "-C", wt, "apply", f"{d}/patch.diff"])
        env = dict(os.environ, VERIF_REPLAYS=wt + "_replays", PYVC_JOBS="6")
        p = run(["./check", pid, "--tier", "quick", "--no-evidence", "--root", wt], cwd=VERIF, env=env)
        viol = [l for l in p.stdout.splitlines() if l.startswith("VIOLATION")]
        other = [l for l in p.stdout.splitlines() if l.startswith(("CHECKER", "UNDECIDED"))]
        verdict = "DETECTED" if p.returncode == 1 and viol else "MISSED" if p.returncode == 0 else f"NO-VERDICT(exit {p.returncode})"
        return f"{sid}: CONFIRMED {verdict} {len(viol)} violation line(s) {viol[0][:170] if viol else ''} {(other[0][:200] if other and verdict != 'DETECTED' else '')}"
    finally:
        run(["git", "-C", "/repo", "worktree", "remove", "--force", wt]); shutil.rmtree(wt, ignore_errors=True); shutil.rmtree(wt + "_replays", ignore_errors=True)


dirs = sorted(d for d in glob.glob(f"{src}/C*-m*") if only in d)
with ThreadPoolExecutor(3) as ex:
    for line in ex.map(one, dirs):
        print(line, flush=True)

#!/bin/sh
# tools/mutroot.sh <seeded id | patch file> <PID> [extra check args]: runs a check against a scratch worktree (/tmp/wt_mine) with the change applied; /repo is not touched.
cd "$(dirname "$0")/.."
wt=/tmp/wt_mine
[ -d $wt ] || git -C /repo worktree add --detach $wt HEAD -q
git -C $wt reset -q --hard "$(git -C /repo rev-parse HEAD)"
p=$1; [ -f "$p" ] || p=$PWD/seeded/$1/patch.diff
git -C $wt apply "$p" || exit 9
pid=$2; shift 2
VERIF_REPLAYS=${wt}_replays ./check $pid --root $wt --no-evidence "$@" 2>&1 | grep -E "^(VIOLATION|CHECKER-ERROR|UNDECIDED|ERROR|KNOWN)|exit=|Traceback|Error" | grep -v "^KNOWN" | cut -c1-260 | head -${LINES_MAX:-12}
git -C $wt reset -q --hard HEAD

#!/usr/bin/env python3
"""tools/confirm_mutant.py <src dir with patch.diff, demo.py, notes.md> <seed id> <property id>

Confirms a seeded change in a fresh scratch worktree of /repo (outside /repo and /verif): the demonstration passes on
the unchanged tree, the patch applies, the repository's test-suite still passes (444 passed / the same 7 rdump failures),
the demonstration fails with the change.  On success stores it as /verif/seeded/<seed id>/ and removes the worktree.
"""
import json, os, shutil, subprocess, sys, tempfile, time

src, sid, pid = os.path.abspath(sys.argv[1]), sys.argv[2], sys.argv[3]
wt = tempfile.mkdtemp(prefix="confirm_", dir="/tmp")
os.rmdir(wt)
run = lambda *a, **k: subprocess.run(*a, capture_output=True, text=True, **k)
ran = []
try:
    r = run(["git", "-C", "/repo", "worktree", "add", "--detach", wt, "HEAD", "-q"]); assert r.returncode == 0, r.stderr
    os.makedirs(f"{wt}/_demo"); shutil.copy(f"{src}/demo.py", f"{wt}/_demo/demo.py")
    env = dict(os.environ, PYTHONPATH=wt)
    d0 = run(["/venv/bin/python", "_demo/demo.py"], cwd=wt, env=env); ran.append(f"demo on unchanged tree: exit {d0.returncode}")
    a = run(["git", "apply", f"{src}/patch.diff"], cwd=wt); ran.append(f"git apply: exit {a.returncode} {a.stderr.strip()[:200]}")
    t = run(["/venv/bin/python", "-m", "pytest", "-q", "-p", "no:cacheprovider", "--timeout=900"], cwd=wt, env=env)
    summary = [l for l in t.stdout.splitlines() if " passed" in l or " failed" in l][-1:] or ["?"]
    failed = sorted(l.split(" ")[1] for l in t.stdout.splitlines() if l.startswith("FAILED "))
    ran.append(f"test-suite with the change: {summary[0]}")
    d1 = run(["/venv/bin/python", "_demo/demo.py"], cwd=wt, env=env); ran.append(f"demo with the change: exit {d1.returncode}: {(d1.stdout + d1.stderr).strip().splitlines()[-1][:300] if (d1.stdout + d1.stderr).strip() else ''}")
    ok = d0.returncode == 0 and a.returncode == 0 and "444 passed" in summary[0] and "7 failed" in summary[0] and all("rdump" in f for f in failed) and d1.returncode != 0
    print("\n".join(ran)); print("CONFIRMED" if ok else "NOT CONFIRMED")
    if ok:
        dst = f"/verif/seeded/{sid}"
        os.makedirs(dst, exist_ok=True)
        for f in ("patch.diff", "demo.py", "notes.md"):
            if os.path.exists(f"{src}/{f}") and os.path.abspath(f"{src}/{f}") != os.path.abspath(f"{dst}/{f}"):
                shutil.copy(f"{src}/{f}", f"{dst}/{f}")
        notes = open(f"{src}/notes.md").read() if os.path.exists(f"{src}/notes.md") else ""
        json.dump({"id": sid, "breaks_property": pid, "origin": "independent sub-agent given only the property text and a scratch worktree",
                   "needs_to_manifest": notes[:1500], "confirmed_by": "tools/confirm_mutant.py in a fresh scratch worktree of /repo HEAD " + subprocess.run(["git", "-C", "/repo", "rev-parse", "--short", "HEAD"], capture_output=True, text=True).stdout.strip(),
                   "what_was_run": ran, "detected_by": None}, open(f"{dst}/meta.json", "w"), indent=1)
    sys.exit(0 if ok else 1)
finally:
    run(["git", "-C", "/repo", "worktree", "remove", "--force", wt])
    shutil.rmtree(wt, ignore_errors=True)

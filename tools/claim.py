#!/usr/bin/env python3
"""tools/claim.py <ID> <level text> <level note> [technique]  - registers / updates a check in MANIFEST.json and validates it."""
import json, sys, subprocess
pid, text, note = sys.argv[1:4]
tech = sys.argv[4] if len(sys.argv) > 4 else "contract-based deductive verification: symbolic execution of the real AST against sidecar contracts, VCs discharged by z3/cvc5"
m = json.load(open("/verif/MANIFEST.json"))
m["checks"] = [c for c in m["checks"] if c["property_id"] != pid]
m["checks"].append({"property_id": pid, "quick_cmd": f"./check {pid} --tier quick", "thorough_cmd": f"./check {pid} --tier thorough", "evidence_file": f"evidence/{pid}.json",
                    "replay_cmd_template": f"./check {pid} --replay {{path}}", "engine": "pyvc", "level_claimed": {"category": "proof", "text": text, "design_ref": f"DESIGN.md section 6 ({pid}) and section 10"},
                    "level_note": note, "technique": tech})
m["checks"].sort(key=lambda c: c["property_id"])
m["not_applicable"] = [n for n in m.get("not_applicable", []) if n["property_id"] != pid]
m["engines"][0]["serves_properties"] = sorted(c["property_id"] for c in m["checks"])
json.dump(m, open("/verif/MANIFEST.json", "w"), indent=1)
print(subprocess.run(["python3-vt", "-c", "import json,jsonschema;jsonschema.validate(json.load(open('/verif/MANIFEST.json')),json.load(open('/root/.vp/MANIFEST.schema.json')));print('manifest ok')"], capture_output=True, text=True).stdout)

#!/bin/sh
# Runs the quick (or $1) tier of every check registered in MANIFEST.json and prints one summary line per property.
cd "$(dirname "$0")/.."
tier=${1:-quick}
for p in $(python3 -c "import json;print(' '.join(c['property_id'] for c in json.load(open('MANIFEST.json'))['checks']))"); do
  out=$(./check $p --tier $tier 2>&1); rc=$?
  echo "$out" | grep -E "^(VIOLATION|CHECKER-ERROR|UNDECIDED)" | head -5
  echo "$out" | tail -1 | sed "s/^/rc=$rc /"
done

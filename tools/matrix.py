#!/usr/bin/env python3
"""tools/matrix.py [--only <substring>] [--update <substring>]  - runs every kept change against the check(s) of the property it breaks and writes seeded/MATRIX.md.

Changes: seeded/<id>/patch.diff (independent sub-agents), selftest/reverts/revert_<hash>.diff and selftest/manual/*.diff (re-introductions of repaired defects).
Each patch is applied to /repo (which must be clean), the check is run with --no-evidence, and the patch is undone straight afterwards.
"""
import glob
import json
import os
import re
import subprocess
import sys

VERIF = os.path.dirname(os.path.dirname(os.path.abspath(__file__)))
only = sys.argv[sys.argv.index("--only") + 1] if "--only" in sys.argv else None
shard = sys.argv[sys.argv.index("--shard") + 1] if "--shard" in sys.argv else None  # "i/n": this process takes every n-th job and works in its own scratch worktree (/repo is not touched)
merge = "--merge" in sys.argv  # compose MATRIX.md (and the meta.json files) from the row files the shards left in /tmp
update = sys.argv[sys.argv.index("--update") + 1] if "--update" in sys.argv else None  # re-run the matching changes and merge their rows into the existing MATRIX.md
if update:
    only = update
EXTRA = {"C01-m2": ["C03"], "C02-m1": ["C03"], "C04-m2": ["C03"], "C16-m2": ["C15"], "C19-m2": ["C13"], "C11-m2": []}


def run_in_worktree(patch, pid, wt):
    head = subprocess.run(["git", "-C", "/repo", "rev-parse", "HEAD"], capture_output=True, text=True).stdout.strip()
    subprocess.run(["git", "-C", wt, "reset", "-q", "--hard", head], check=True)
    r = subprocess.run(["git", "-C", wt, "apply", patch], capture_output=True, text=True)
    if r.returncode:
        return "DOES-NOT-APPLY", "", r.stderr.strip()[:100]
    env = dict(os.environ, VERIF_REPLAYS=os.path.join(wt + "_replays"))
    try:
        # (a change that makes every obligation of a check slow - C06-m13 - must not hold up a shard for good)
        p = subprocess.run(["./check", pid, "--tier", "quick", "--no-evidence", "--root", wt], capture_output=True, text=True, cwd=VERIF, env=env, timeout=int(os.environ.get("MX_TIMEOUT", "2400")))
    except subprocess.TimeoutExpired:
        subprocess.run(["pkill", "-f", f"--root {wt}"], capture_output=True)
        subprocess.run(["git", "-C", wt, "reset", "-q", "--hard", head], check=True)
        return "NO-VERDICT(check stopped after MX_TIMEOUT)", "", "0 violation line(s)"
    subprocess.run(["git", "-C", wt, "reset", "-q", "--hard", head], check=True)
    return verdict_of(p)


def verdict_of(p):
    viol = [l for l in p.stdout.splitlines() if l.startswith("VIOLATION")]
    confirmed = [v for v in viol if not v.endswith("no-failing-input-found")]
    names = [os.path.basename(v.split("replay=")[1].split()[0])[:-5] for v in viol]
    deductive = [n for n in names if not re.search(r"sweep|golden|codec$|reference_codec|history_codec|native$", n)]
    verdict = "DETECTED" if p.returncode == 1 and viol else "MISSED" if p.returncode == 0 else f"NO-VERDICT(exit {p.returncode})"
    how = []
    if deductive:
        how.append("deductive obligation " + deductive[0])
    if len(deductive) < len(names):
        how.append("bounded native sweep")
    return verdict, "; ".join(how), f"{len(viol)} violation line(s), {len(confirmed)} replayed on the real code"


def run(patch, pid):
    if shard:
        return run_in_worktree(patch, pid, WT)
    st = subprocess.run(["git", "-C", "/repo", "status", "--porcelain", "--untracked-files=no"], capture_output=True, text=True).stdout.strip()
    if st:
        sys.exit("refusing: /repo has uncommitted changes")
    r = subprocess.run(["git", "-C", "/repo", "apply", patch], capture_output=True, text=True)
    if r.returncode:
        return "DOES-NOT-APPLY", "", r.stderr.strip()[:100]
    try:
        p = subprocess.run(["./check", pid, "--tier", "quick", "--no-evidence"], capture_output=True, text=True, cwd=VERIF)
    finally:
        subprocess.run(["git", "-C", "/repo", "checkout", "--", "."], check=True)
    viol = [l for l in p.stdout.splitlines() if l.startswith("VIOLATION")]
    confirmed = [v for v in viol if not v.endswith("no-failing-input-found")]
    names = [os.path.basename(v.split("replay=")[1].split()[0])[:-5] for v in viol]
    deductive = [n for n in names if not re.search(r"sweep|golden|codec$|reference_codec|history_codec", n)]
    verdict = "DETECTED" if p.returncode == 1 and viol else "MISSED" if p.returncode == 0 else f"NO-VERDICT(exit {p.returncode})"
    how = []
    if deductive:
        how.append("deductive obligation " + deductive[0])
    if len(deductive) < len(names):
        how.append("bounded native sweep")
    return verdict, "; ".join(how), f"{len(viol)} violation line(s), {len(confirmed)} replayed on the real code"


rows = []
fixed = {}
for line in open(os.path.join(VERIF, "known_findings.txt")):
    m = re.match(r"fixed: property=(C\d+) ([0-9a-f]{7}) (.*)", line)
    if m:
        fixed[m.group(2)] = (m.group(1), m.group(3))
jobs = []
for d in sorted(glob.glob(os.path.join(VERIF, "seeded", "*", "patch.diff"))):
    sid = os.path.basename(os.path.dirname(d))
    meta = json.load(open(os.path.join(os.path.dirname(d), "meta.json")))
    pid = meta.get("breaks_property") or sid.split("-")[0]
    jobs.append((sid, d, [pid] + EXTRA.get(sid, []), "seeded (independent sub-agent): " + re.sub(r"\s+", " ", meta.get("needs_to_manifest", ""))[:110]))
for d in sorted(glob.glob(os.path.join(VERIF, "selftest", "reverts", "revert_*.diff"))):
    h = os.path.basename(d)[7:-5]
    if h in fixed:
        jobs.append(("revert " + h, d, [fixed[h][0]], "re-introduces the repaired defect: " + fixed[h][1][:110]))
for d in sorted(glob.glob(os.path.join(VERIF, "selftest", "manual", "*.diff"))):
    m = re.search(r"reintroduce_([0-9a-f]{7})", d)
    if m and m.group(1) in fixed:
        jobs.append(("manual " + m.group(1), d, [fixed[m.group(1)][0]], "re-introduces the repaired defect (hand made, the plain revert conflicts): " + fixed[m.group(1)][1][:90]))
if merge:
    import json as _json

    rows = []
    for fn in sorted(glob.glob("/tmp/matrix_rows_*.json")):
        rows += [tuple(r) for r in _json.load(open(fn))]
    # a (change, check) pair that was run again later (MX_TAG=z.. re-runs of single rows sort last) replaces the earlier row
    last = {}
    for r in rows:
        last[(r[0], r[1])] = r
    rows = list(last.values())
    order = {j[0]: i for i, j in enumerate(jobs)}
    rows = [r for r in rows if r[0] in order]  # (changes that were retired since the shards ran are left out)
    rows.sort(key=lambda r: (order.get(r[0], 10**6), r[1]))
    for sid, patch, pids, what in jobs:
        if sid.startswith("C"):
            mine = [r for r in rows if r[0] == sid and r[1] == pids[0]]
            if mine:
                mp = os.path.join(os.path.dirname(patch), "meta.json")
                meta = json.load(open(mp))
                v, how, n = mine[0][2], mine[0][3], mine[0][4]
                meta["detected_by"] = f"./check {pids[0]} --tier quick: {v}" + (f" ({how}; {n})" if how else "")
                json.dump(meta, open(mp, "w"), indent=1)
    jobs = []
WT = None
if shard:
    si, sn = map(int, shard.split("/"))
    TAG = os.environ.get("MX_TAG") or str(si)
    WT = f"/tmp/mx_wt_{TAG}"
    subprocess.run(["git", "-C", "/repo", "worktree", "remove", "--force", WT], capture_output=True)
    subprocess.run(["git", "-C", "/repo", "worktree", "add", "--detach", WT, "HEAD", "-q"], check=True)
    flat = [(sid, patch, pid, what) for sid, patch, pids, what in jobs for pid in pids]
    # (the slow checks first within a shard does not matter; the jobs are dealt round robin)
    jobs = [(sid, patch, [pid], what) for k, (sid, patch, pid, what) in enumerate(flat) if k % sn == si]
if os.environ.get("MX_LIST"):
    print("\n".join(f"{sid} {pids[0]}" for sid, patch, pids, what in jobs))
    sys.exit(0)
for sid, patch, pids, what in jobs:
    if only and not re.search(only, sid):
        continue
    for pid in pids:
        v, how, n = run(patch, pid)
        rows.append((sid, pid, v, how, n, what))
        print(sid, pid, v, how, n, flush=True)
        if shard:
            json.dump(rows, open(f"/tmp/matrix_rows_{os.environ.get('MX_TAG') or shard.split('/')[0]}.json", "w"))
            continue
        if sid.startswith("C") and pid == pids[0]:
            mp = os.path.join(os.path.dirname(patch), "meta.json")
            meta = json.load(open(mp))
            meta["detected_by"] = f"./check {pid} --tier quick: {v}" + (f" ({how}; {n})" if how else "")
            json.dump(meta, open(mp, "w"), indent=1)
if update:
    mp_ = os.path.join(VERIF, "seeded", "MATRIX.md")
    old_rows = []
    for line in open(mp_):
        if line.startswith("| ") and not line.startswith("| change |") and not line.startswith("|---"):
            cells = [c.strip().replace("\\|", "|") for c in re.split(r"(?<!\\)\|", line.strip().strip("|"))]
            if len(cells) == 6:
                old_rows.append(tuple(cells))
    new_keys = {(r[0], r[1]) for r in rows}
    merged = [r for r in old_rows if (r[0], r[1]) not in new_keys and any(r[0] == j[0] for j in jobs)] + rows
    order = {j[0]: i for i, j in enumerate(jobs)}
    rows = sorted(merged, key=lambda r: (order.get(r[0], 10**6), r[1]))
if shard:
    subprocess.run(["git", "-C", "/repo", "worktree", "remove", "--force", WT], capture_output=True)
    sys.exit(0)
if not only or update or merge:
    with open(os.path.join(VERIF, "seeded", "MATRIX.md"), "w") as f:
        f.write("# Which check catches which change\n\nGenerated by `tools/matrix.py` (quick tier, each patch applied to /repo, checked, undone).\n"
                "`deductive obligation` = a named proof obligation fails (the first one is shown); `bounded native sweep` = only / also the bounded stand-in on the real code reports it.\n\n"
                "| change | check | verdict | caught by | violations | what the change is |\n|---|---|---|---|---|---|\n")
        for r in rows:
            f.write("| " + " | ".join(str(x).replace("|", "\\|") for x in r) + " |\n")
        det = sum(1 for r in rows if r[2] == "DETECTED")
        f.write(f"\n{det} of {len(rows)} (change, check) pairs detected.\n")

#!/bin/sh
# Runs the repository's own test-suite (guard off) and prints "<passed> passed <failed> failed".
cd /repo && /venv/bin/python -m pytest -p no:cacheprovider --timeout=900 --continue-on-collection-errors -q 2>&1 | grep -E '^[0-9]+ (passed|failed)|passed|failed' | tail -1

#!/bin/sh
# Re-bases seeded patches that no longer apply to /repo HEAD (after a "fix:" commit touched the same lines) with a 3-way apply in a
# scratch worktree outside /repo and /verif; the demonstration is re-run by tools/confirm_mutant.py afterwards.
cd "$(dirname "$0")/.."
for d in seeded/*/; do
  id=$(basename $d); [ -f "$d/patch.diff" ] || continue
  if git -C /repo apply --check "$PWD/$d/patch.diff" 2>/dev/null; then continue; fi
  wt=$(mktemp -d /tmp/rebase_XXXXXX); rmdir "$wt"
  git -C /repo worktree add --detach "$wt" HEAD -q
  if git -C "$wt" apply -3 "$PWD/$d/patch.diff" >/dev/null 2>&1 && ! git -C "$wt" diff --name-only --diff-filter=U | grep -q .; then
    git -C "$wt" diff HEAD -- flow > "$d/patch.diff.new" && mv "$d/patch.diff.new" "$d/patch.diff" && echo "$id: rebased"
  else
    echo "$id: CONFLICT - needs manual rebase"
  fi
  git -C /repo worktree remove --force "$wt"; rm -rf "$wt"
done

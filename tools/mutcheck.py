#!/usr/bin/env python3
"""tools/mutcheck.py <patch> <ID> [<ID>...]  - apply a patch to /repo, run the named checks (no evidence written), undo.

Prints one line per check: DETECTED (exit 1 + VIOLATION), MISSED (exit 0), or ERROR (other exit).  /repo must be clean.
"""
import subprocess, sys, os

patch, ids = os.path.abspath(sys.argv[1]), sys.argv[2:]
tier = os.environ.get("VERIF_TIER", "quick")
st = subprocess.run(["git", "-C", "/repo", "status", "--porcelain", "--untracked-files=no"], capture_output=True, text=True).stdout.strip()
if st:
    sys.exit("refusing: /repo has uncommitted changes:\n" + st)
r = subprocess.run(["git", "-C", "/repo", "apply", patch], capture_output=True, text=True)
if r.returncode:
    sys.exit("patch does not apply: " + r.stderr)
try:
    for pid in ids:
        p = subprocess.run(["./check", pid, "--tier", tier, "--no-evidence"], capture_output=True, text=True, cwd="/verif")
        viol = [l for l in p.stdout.splitlines() if l.startswith("VIOLATION")]
        verdict = "DETECTED" if p.returncode == 1 and viol else "MISSED" if p.returncode == 0 else f"ERROR(exit {p.returncode})"
        print(f"{os.path.basename(os.path.dirname(patch)) or ''}/{os.path.basename(patch)} {pid}: {verdict} {len(viol)} violation line(s); first: {viol[0][:160] if viol else ''}")
        if verdict.startswith("ERROR"):
            print("\n".join((p.stdout + p.stderr).splitlines()[-6:]))
finally:
    subprocess.run(["git", "-C", "/repo", "checkout", "--", "."], check=True)

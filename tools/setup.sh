#!/bin/sh
# MANIFEST.setup_cmd: nothing is built; verifies the tool chain the checks need (offline) and that /repo parses.
set -e
cd "$(dirname "$0")/.."
python3-vt - <<'PY'
import ast, glob, sys
import z3
print("z3", z3.get_version_string())
try:
    import cvc5
    print("cvc5 python ok")
except Exception as e:
    print("cvc5 python missing:", e)
n = 0
for f in glob.glob("/repo/flow/record/**/*.py", recursive=True):
    ast.parse(open(f).read(), filename=f); n += 1
print("parsed", n, "source files of /repo/flow/record")
s = z3.Solver(); x = z3.Int("x"); s.add(x > 1, x < 3); assert s.check() == z3.sat
PY
/venv/bin/python -c "import flow.record, msgpack; print('native interpreter ok', flow.record.__file__)"
test -x /usr/bin/cvc5 && echo "cvc5 cli ok" || echo "cvc5 cli missing (unknowns stay undecided)"

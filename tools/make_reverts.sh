#!/bin/sh
# Regenerates selftest/reverts/: for every "fix:" commit of /repo a patch against the current HEAD that re-introduces the defect
# (computed with `git revert --no-commit` in a scratch worktree outside /repo and /verif, which is removed afterwards).
set -e
cd "$(dirname "$0")/.."
wt=$(mktemp -d /tmp/reverts_XXXXXX); rmdir "$wt"
git -C /repo worktree add --detach "$wt" HEAD -q
trap 'git -C /repo worktree remove --force "$wt"; rm -rf "$wt"' EXIT
rm -f selftest/reverts/revert_*.diff
for c in $(git -C /repo log --format=%h 69a5132..HEAD); do
  if git -C "$wt" revert --no-commit "$c" >/dev/null 2>&1; then
    git -C "$wt" diff HEAD > "selftest/reverts/revert_$c.diff"
  else
    echo "revert of $c conflicts with later fixes (skipped)"
  fi
  git -C "$wt" reset -q --hard HEAD
done
git -C /repo log --format='%h %s' 69a5132..HEAD > selftest/reverts/INDEX.txt
ls selftest/reverts | wc -l
